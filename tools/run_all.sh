#!/bin/bash
# Run every claimed check once (sequentially) on /repo's working tree and print a summary.
# usage: tools/run_all.sh [quick|thorough]
tier=${1:-quick}
cd "$(dirname "$0")/.." && mkdir -p logs
for id in $(python3 -c "import json; print(' '.join(c['property_id'] for c in json.load(open('MANIFEST.json'))['checks']))"); do
  s=$(date +%s)
  ./check $id --tier $tier > logs/run_all_$id.out 2>&1
  rc=$?
  echo "$id rc=$rc wall=$(( $(date +%s) - s ))s $(tail -1 logs/run_all_$id.out | cut -c1-120)"
done
