HOOKS_ENABLE = ("no hook is needed: checks annotate a scratch copy of /repo (Kani harness modules appended under #[cfg(kani)], native cross-check modules under #[cfg(test)], "
                "Verus overlays woven into extracted text); the guard name is reserved (--cfg pkhuong_woodpile_verif)")
HOOK_COMMITS = []
NOTES = ("Contract-based deductive verification of the real code. exit 0 = every obligation carrying the property discharged; "
         "exit 1 = VIOLATION line(s); exit 2 = undecided (tool limit, lost anchor, timeout) -- never an alarm. "
         "See DESIGN.md; known_findings.txt lists the fixed defects (fix: commits in /repo).")

_VX = ("Verus: each function between the public API and the property carries requires/ensures/invariant/decreases woven around "
       "its real text (extracted from /repo on every run); callers are checked against callee contracts only; ")
CHECKS = {
    "C01": {"engine": "verus", "design_ref": "DESIGN.md 4, 5 (C01)",
            "technique": "Verus function contracts (meaning-preservation postcondition) + round-trip lemma",
            "text": _VX + "encoder ops ensure forall z. meaning'(z) == meaning(input ++ z) (so any segmentation / input method gives "
                    "enc(concatenation)); decoder ops refine the byte automaton drun; lemma drun(enc(x)) == (accept, x) for all x. "
                    "Unbounded: all lengths, all segmentations.",
            "note": "OwningIovec producer/consumer interface and AnchoredSlice::components are assumed contracts; find_stuff_sequence is proved in the unit (rule N16) with Kani (slices <= 72 bytes) and a native enumeration (<= 200 bytes) as second engines; see evidence.assumptions"},
    "C02": {"engine": "verus", "design_ref": "DESIGN.md 4, 5 (C02)",
            "technique": "Verus contracts: out == enc(X); lemmas no_stuff(enc x), |enc x| bound, split composition",
            "text": _VX + "finish() returns enc(concatenated input) by the meaning contract; pure lemmas prove no FE FD at any position of "
                    "enc(x), the length bound |x|+1+2*ceil(|x|/64008), and composition over pieces. Unbounded.",
            "note": "same assumed contracts as C01"},
    "C07": {"engine": "verus", "design_ref": "DESIGN.md 4, 5 (C07)",
            "technique": "Verus contracts against spec functions enc (encoder) and dstep/drun (decoder); panic-freedom obligations",
            "text": _VX + "encoder output is byte-for-byte the spec function enc (chunking at first stuff sequence / 252 / 64008, radix-253 headers, "
                    "short final chunk); every decoder function is Ok iff the format automaton does not fail and produces exactly its output, for "
                    "any segmentation; every assert!/unwrap/index in the codec is a discharged obligation (never panics).",
            "note": "constants RADIX/STUFF_SEQUENCE/PROD_PARAMS are extracted verbatim (N6/N11); the spec automaton is a transcription of the format text"},
    "C09": {"engine": "verus", "design_ref": "DESIGN.md 5 (C09)",
            "technique": "Verus frame postcondition (stable-prefix preservation) on every codec function + lag lemma from the invariant",
            "text": _VX + "every codec function ensures that each prefix below all pending placeholders stays a prefix with identical bytes "
                    "(append-or-backfill-pending frame); the encoder invariant bounds |bytes| - header_start by 2 + 64008 independent of stream length; "
                    "decoder functions ensure pending is unchanged (lag 0).",
            "note": "byte-level; the slice-granularity slack inside OwningIovec::stable_prefix ('one arena chunk') and consumer operations are assumed (C03/C04 not claimed)"},
    "C14": {"engine": "kani+verus+native", "design_ref": "DESIGN.md 5 (C14)",
            "technique": "Kani full-domain loop-free harness (complete) + Verus modular contracts on new/check/get_local_time/now",
            "text": "check_vouched_time: Ok <=> window, for ALL (i128, u64) inputs, proved twice (CBMC bit-precise, loop-free => complete; and "
                    "Verus over mathematical integers with overflow checks). check/new/new_or_die/get_local_time/check_or_die/now are verified by "
                    "Verus against the callee contracts: Ok <=> vouches /\\ window(ms(local), base), constructed values report their local time, "
                    "internal self-checks cannot panic. A Kani harness cross-checks `check` with the real time crate "
                    "and a stubbed voucher verdict; Engine C (native, bounded) runs the same rule through VouchedTime::new with REAL vouchers on 66 local "
                    "times x ~70 base times (window edges, the same modulo 2^32/2^63/2^64), so that a failure is a concrete public-API input.",
            "note": "time / raffle / io::Error are dependencies under assumed contracts (stand-ins); BASE_TIME_CHECK pinned by a concrete Kani harness"},
}

_KB = ("Kani on the real crate (harness modules appended in a scratch copy): each harness is a Hoare triple -- arbitrary state / input "
       "satisfying the precondition, one call, postcondition asserted -- complete below the stated bound (unwinding assertions on, "
       "cover properties as vacuity guards); a failure is replayed natively on the real code with Kani's concrete playback. ")
CHECKS.update({
    "C08": {"engine": "verus", "design_ref": "DESIGN.md 5 (C08), 10.7",
            "technique": "Verus per-call contract of StreamChunker::pump against a ghost stream + one-step tiling lemma",
            "text": _VX + "pump, for every stream, every reader chunking (short reads / Interrupted) and every block size incl. 0 and 1: "
                    "Sentinel <=> FE FD at the current position; Data = exactly the next bytes, non-empty, FE FD neither inside nor straddling "
                    "into the next chunk; Eof only when nothing is left; reported offsets are absolute end positions; terminates, no panic, no "
                    "offset overflow. Tiling of successive calls is a one-step lemma + induction.",
            "note": "assumed: Chain + ByteArena::read_n deliver exactly min(count, available) bytes of carried ++ stream (no hard I/O errors), AnchoredSlice operations act on the exposed bytes; find_stuff_sequence is proved in the unit (rule N16); found and fixed F1 (block size 0/1)"},
    "C11": {"engine": "verus+kani+native", "design_ref": "DESIGN.md 5 (C11), 10.1, 10.13",
            "technique": "Verus contract on the real MessageWrapper::compute_len (acceptance / length rule, every list length, every usize value length); Kani bounded Hoare-triple harnesses against the Roughtime layout; full-usize-domain harness for the i32::MAX rule; native bounded cross-check of the same triple on long lists",
            "text": "Verus (unit tlv_len) proves, for lists of every length and generic in the value type, that compute_len -- the rule all three constructors share -- "
                    "accepts exactly within the i32::MAX limits, returns exactly 4 + 4(N-1) + 4N + sum of value lengths, and names the cause of each error. " + _KB + "Layout, emitted == rough_tlv_len, MessageView round trip, stable tie order, new_from_sorted's rejection set, "
                    "Cow variants; the length rule over ALL usize lengths via a value type with symbolic length. Nested messages (values that "
                    "are themselves messages) and long lists are checked by Engine C only (CBMC runs out of memory on the nesting harness).",
            "note": "BOUNDED: <= 2 pairs x 1-byte values quick (<= 3 x 2 thorough); recording sink instead of OwningIovec/Encoder (arena out of Kani's reach); defects that need many pairs (e.g. an unstable sort, which is stable below ~20 elements) are beyond Kani's bound and are reached only by Engine C, the native bounded cross-check (lists of up to 72 / 300 pairs; bounded, not proof)"},
    "C12": {"engine": "kani+native", "design_ref": "DESIGN.md 5 (C12), 10.1",
            "technique": "Kani bounded harnesses: acceptance <=> format rule on all byte strings up to the bound; accessor agreement / tiling by pointer identity; native bounded cross-check of the same triple on headers with many pairs",
            "text": _KB + "new() never panics and accepts exactly the format; values tile the payload; get/iter/tags agree; every index >= N yields "
                    "None; find returns a value under exactly that tag. A second acceptance harness covers headers with up to 11 (17) pairs, a third every header of exactly 10 (19) pairs. "
                    "Engine C (native, bounded, not proof) runs the same triple on headers of up to 72 (300) pairs.",
            "note": "BOUNDED: all byte strings <= 20 bytes quick / 24 thorough for the accessor harnesses; acceptance alone on all strings <= 88 / 136 bytes"},
    "C15": {"engine": "verus+kani+native", "design_ref": "DESIGN.md 10.8",
            "technique": "Verus contracts on the real generic SlidingDeque<Container> against a trait contract (unbounded); Kani checks the trait contract on Vec/SmallVec and cross-checks each operation",
            "text": "Verus proves every operation (push_back, pop_front, pop_back, advance for every usize count, clear, slide, maybe_slide, front/back, "
                    "front_mut/back_mut, Deref/DerefMut bodies, From) against the reference deque `view` and the representation invariant (= the "
                    "code's check_rep: consumed <= len/2; the debug assertions are proof obligations), for ANY container meeting the "
                    "PushTruncateContainer contract, in both debug and release configurations; Vec's impl of the contract is proved from vstd. "
                    "Kani checks SmallVec's/Vec's impl of the contract and re-checks each operation on the real containers (bounded).",
            "note": "assumed: <[T]>::copy_within is memmove; SmallVec meets the container contract (bounded: Kani on <= 3 elements, plus Engine C running the deque on real SmallVec backings through inline->heap transitions, up to 40 / 120 elements); Deref trait methods are contract stubs whose bodies are verified re-homed (N12)"},
    "C16": {"engine": "verus+kani+native", "design_ref": "DESIGN.md 5 (C16), 10.3, 10.4 (F6), 10.12",
            "technique": "Verus contracts on the real generic SortedDeque against the reference ordered map `live` (unbounded, against trait contracts of comparator/marker and the SlidingDeque contracts); Kani bounded inductive-per-operation harnesses, both item conventions, incl. a second discharge of the cleanup_front contract (proved in Verus via rule N15); native bounded cross-check of whole operation sequences on more keys",
            "text": "Verus proves new, push_back_or_panic, clear, is_empty, first, last, pop_first, pop_last, find, find_index, remove, cleanup_back, "
                    "check_rep for every size against the reference ordered map (the non-erased physical items in order) and the invariant wf, generic "
                    "in container and comparator, cleanup_front included (rule N15); the comparator's order laws / method contracts and binary_search_by are assumed there. "
                    + _KB + "Every operation from EVERY rep-valid state within the bound (sorted keys, first/last live, inner deque invariant) against "
                    "the list of live items; 'push of a non-greater key always panics' via an unreachable-marker harness; the cleanup_front contract (also proved in Verus) "
                    "on <= 7 / 10 items. One OPEN known finding (F6, whole-item ordering with tied key fields) is confined to its own harness.",
            "note": "BOUNDED: <= 4 physical items quick / 5 thorough; induction over operations is a meta-argument; defects needing >= 5 physical items are beyond the quick Kani bound and are reached by the thorough tier (5) and by Engine C, the native bounded cross-check (every subset of removals over <= 10 / 13 keys, all observations after every step; bounded, not proof)"},
    "C17": {"engine": "verus+kani+native", "design_ref": "DESIGN.md 5 (C17), 10.1",
            "technique": "Verus contract on ByteArena::read_n_impl against a ghost reader script (unbounded) + Verus contracts on Encoder/Decoder read_n / encode_read / decode_read; Kani bounded harness over all reader scripts as second engine with counterexample playback",
            "text": "Verus proves ByteArena::read_n_impl for EVERY reader script, count and attempt limit against the assumed contract of Read::read "
                    "(loop invariant: outcome-so-far + simulation of the rest of the script == simulation from the start): at most max_attempts calls, "
                    "never more than count bytes, stops at EOF / first hard error / full, Ok(n) with exactly the delivered bytes in order when n > 0 or no "
                    "error pending, Err(last error) otherwise. " + _KB + "read_n_impl under every script of <= 4 steps over {deliver k, Interrupted, EOF, hard error}. The codec wrappers are verified by "
                    "Verus (unbounded) against the assumed ByteArena::read_n contract: failed read => output untouched; Ok(n) => exactly the n bytes read are "
                    "encoded / decoded.",
            "note": "Engine C (native, bounded) runs the WHOLE of ByteArena::read_n, wrapper included, on real arenas over every script of <= 4 steps x 12 counts (0..70000) x 5 attempt limits. level stays model_checking because the unsafe alloc/release wrapper ByteArena::read_n around read_n_impl and the arena states are assumed in the proof and only bounded-checked (Kani out of memory on the arena, unsafe outside Verus); Read::read, <[u8]>::fill, io::Error::kind, Option::replace under assumed contracts"},
    "C18": {"engine": "kani", "design_ref": "DESIGN.md 10.9",
            "technique": "Kani harnesses from every state a suspended writer can leave (symbolic sequence, arbitrary non-stable slot, lock held/free); unwind 2 with unwinding assertion",
            "text": "snapshot() completes in one pass of its loop, returns the published pair, never panics and never touches the lock, from EVERY state of "
                    "the form a suspended writer can leave behind, with the lock held forever; try_update returns false without waiting when the lock is held and "
                    "behaves as update otherwise. Loop-free after unwinding + unwinding assertions => complete for the stated state space.",
            "note": "get_base_time_unlocked: a harness of its own on the process-wide BASE_TIME (initial state, `now` on both sides of every staleness threshold) with the blocking lock forbidden; sequential consistency at atomic-operation granularity; the writer's store order is NOT assumed: c18_snapshot_with_real_writer_cut_off_at_every_store runs the real advance_once and suspends it before each of its atomic stores; 4 concrete vouched pairs"},
})

NOT_APPLICABLE = {
    "C03": "OwningIovec is unsafe pointer/lifetime code outside Verus's subset; Kani exhausts memory on the smallest harness (measured); its producer contracts appear only as assumptions of C01/C02/C07/C09",
    "C04": "same as C03 (backpatch visibility lives in OwningIovec/GlobalDeque unsafe code)",
    "C05": "heap-lifetime property over unsafe code; no per-call postcondition without separation logic; Kani out of memory (measured)",
    "C06": "StreamReader::next_record_bytes (labelled continue, let-else, FnMut judge over ConsumingIovec, &mut returns) is outside Verus's subset and cannot run under Kani (arena)",
    "C10": "global allocation counters / Arc refcounts across drops: no contract within reach; Kani out of memory on the arena",
    "C13": "thread interleavings x weak memory: Kani has no threads, Verus reasons only about its own SC atomics",
    "C19": "file system + process-wide statics behind std::fs; after assuming those calls the interesting clause is true by assumption",
    "C20": "same as C03 (clone/take independence is a heap-aliasing property of unsafe code)",
}
