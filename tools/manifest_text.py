HOOKS_ENABLE = ("no hook is needed: checks annotate a scratch copy of /repo (Kani harness modules appended under #[cfg(kani)], "
                "Verus overlays woven into extracted text); the guard name is reserved (--cfg pkhuong_woodpile_verif)")
HOOK_COMMITS = []
NOTES = ("Contract-based deductive verification of the real code. exit 0 = every obligation carrying the property discharged; "
         "exit 1 = VIOLATION line(s); exit 2 = undecided (tool limit, lost anchor, timeout) -- never an alarm. "
         "See DESIGN.md; known_findings.txt lists the fixed defects (fix: commits in /repo).")

_VX = ("Verus: each function between the public API and the property carries requires/ensures/invariant/decreases woven around "
       "its real text (extracted from /repo on every run); callers are checked against callee contracts only; ")
CHECKS = {
    "C01": {"engine": "verus", "design_ref": "DESIGN.md 4, 5 (C01)",
            "technique": "Verus function contracts (meaning-preservation postcondition) + round-trip lemma",
            "text": _VX + "encoder ops ensure forall z. meaning'(z) == meaning(input ++ z) (so any segmentation / input method gives "
                    "enc(concatenation)); decoder ops refine the byte automaton drun; lemma drun(enc(x)) == (accept, x) for all x. "
                    "Unbounded: all lengths, all segmentations.",
            "note": "OwningIovec producer/consumer interface, find_stuff_sequence (bounded Kani), AnchoredSlice::components are assumed contracts; see evidence.assumptions"},
    "C02": {"engine": "verus", "design_ref": "DESIGN.md 4, 5 (C02)",
            "technique": "Verus contracts: out == enc(X); lemmas no_stuff(enc x), |enc x| bound, split composition",
            "text": _VX + "finish() returns enc(concatenated input) by the meaning contract; pure lemmas prove no FE FD at any position of "
                    "enc(x), the length bound |x|+1+2*ceil(|x|/64008), and composition over pieces. Unbounded.",
            "note": "same assumed contracts as C01"},
    "C07": {"engine": "verus", "design_ref": "DESIGN.md 4, 5 (C07)",
            "technique": "Verus contracts against spec functions enc (encoder) and dstep/drun (decoder); panic-freedom obligations",
            "text": _VX + "encoder output is byte-for-byte the spec function enc (chunking at first stuff sequence / 252 / 64008, radix-253 headers, "
                    "short final chunk); every decoder function is Ok iff the format automaton does not fail and produces exactly its output, for "
                    "any segmentation; every assert!/unwrap/index in the codec is a discharged obligation (never panics).",
            "note": "constants RADIX/STUFF_SEQUENCE/PROD_PARAMS are extracted verbatim (N6/N11); the spec automaton is a transcription of the format text"},
    "C09": {"engine": "verus", "design_ref": "DESIGN.md 5 (C09)",
            "technique": "Verus frame postcondition (stable-prefix preservation) on every codec function + lag lemma from the invariant",
            "text": _VX + "every codec function ensures that each prefix below all pending placeholders stays a prefix with identical bytes "
                    "(append-or-backfill-pending frame); the encoder invariant bounds |bytes| - header_start by 2 + 64008 independent of stream length; "
                    "decoder functions ensure pending is unchanged (lag 0).",
            "note": "byte-level; the slice-granularity slack inside OwningIovec::stable_prefix ('one arena chunk') and consumer operations are assumed (C03/C04 not claimed)"},
    "C14": {"engine": "kani+verus", "design_ref": "DESIGN.md 5 (C14)",
            "technique": "Kani full-domain loop-free harness (complete) + Verus modular contracts on new/check/get_local_time/now",
            "text": "check_vouched_time: Ok <=> window, for ALL (i128, u64) inputs, proved twice (CBMC bit-precise, loop-free => complete; and "
                    "Verus over mathematical integers with overflow checks). check/new/new_or_die/get_local_time/check_or_die/now are verified by "
                    "Verus against the callee contracts: Ok <=> vouches /\\ window(ms(local), base), constructed values report their local time, "
                    "internal self-checks cannot panic. A Kani harness cross-checks `check` with the real time/raffle code.",
            "note": "time / raffle / io::Error are dependencies under assumed contracts (stand-ins); BASE_TIME_CHECK pinned by a concrete Kani harness"},
}

NOT_APPLICABLE = {
    "C03": "OwningIovec is unsafe pointer/lifetime code outside Verus's subset; Kani exhausts memory on the smallest harness (measured); its producer contracts appear only as assumptions of C01/C02/C07/C09",
    "C04": "same as C03 (backpatch visibility lives in OwningIovec/GlobalDeque unsafe code)",
    "C05": "heap-lifetime property over unsafe code; no per-call postcondition without separation logic; Kani out of memory (measured)",
    "C06": "StreamReader::next_record_bytes (labelled continue, let-else, FnMut judge over ConsumingIovec, &mut returns) is outside Verus's subset and cannot run under Kani (arena)",
    "C08": "not yet built",
    "C10": "global allocation counters / Arc refcounts across drops: no contract within reach; Kani out of memory on the arena",
    "C11": "not yet built",
    "C12": "not yet built",
    "C13": "thread interleavings x weak memory: Kani has no threads, Verus reasons only about its own SC atomics",
    "C15": "not yet built",
    "C16": "not yet built",
    "C17": "not yet built",
    "C18": "not yet built",
    "C19": "file system + process-wide statics behind std::fs; after assuming those calls the interesting clause is true by assumption",
    "C20": "same as C03 (clone/take independence is a heap-aliasing property of unsafe code)",
}
