#!/usr/bin/env python3
"""Print the markdown table of seeded changes from /verif/seeded/*/meta.json (for DESIGN.md section 11)."""
import json, glob, os
rows = []
for p in sorted(glob.glob(os.path.join(os.path.dirname(os.path.abspath(__file__)), "..", "seeded", "*", "meta.json"))):
    m = json.load(open(p))
    c = m.get("check", {})
    t = m.get("check_thorough", {})
    def who(c):
        v = c.get("violation_lines", [])
        return ", ".join(sorted({l.split("obligation=")[1].split()[0] for l in v if "obligation=" in l})) if v else ""
    res = ("CONTROL (the property holds with this change): exit %s, %s" % (c.get("exit"), "no VIOLATION line" if not c.get("violation_lines") else "VIOLATION (false alarm!)")) if m.get("control") else "caught (quick): " + who(c) if m.get("caught") else ("caught (thorough): " + who(t) if m.get("caught_thorough") else
          ("NOT caught: exit %s" % c.get("exit") if c else "not run"))
    rows.append("| `%s` | %s | %s | %s | %s |" % (m["name"], m["property"], m.get("needs_to_manifest", "").replace("|", "/")[:260],
                                               "yes" if m.get("confirmed") else "NO", res))
print("| seeded change | property | what it needs to manifest | confirmed (suite passes, demo fails with / passes without) | result |")
print("|---|---|---|---|---|")
print("\n".join(rows))
