#!/usr/bin/env python3
"""Regenerate /verif/MANIFEST.json from lib/registry.py + tools/manifest_text.py."""
import json, os, sys
HERE = os.path.dirname(os.path.abspath(__file__))
sys.path.insert(0, os.path.join(HERE, "..", "lib"))
sys.path.insert(0, HERE)
import registry
import manifest_text as T

checks = []
for pid in sorted(T.CHECKS):
    spec = registry.PROPERTIES[pid]
    t = T.CHECKS[pid]
    checks.append({
        "property_id": pid,
        "quick_cmd": "./check %s --tier quick" % pid,
        "thorough_cmd": "./check %s --tier thorough" % pid,
        "evidence_file": "evidence/%s.json" % pid,
        "replay_cmd_template": "./check %s --replay {path}" % pid,
        "engine": t["engine"],
        "level_claimed": {"category": spec["level"], "text": t["text"], "design_ref": t["design_ref"]},
        "level_note": t["note"],
        "technique": t["technique"],
    })
na = [{"property_id": k, "reason": v} for k, v in sorted(T.NOT_APPLICABLE.items()) if k not in T.CHECKS]
m = {
    "version": 1,
    "setup_cmd": "./setup.sh",
    "hooks": {
        "guard": "pkhuong_woodpile_verif",
        "enable": T.HOOKS_ENABLE,
        "baseline_off_cmd": "cd /repo && cargo test --workspace --no-fail-fast --offline",
        "source_commits": T.HOOK_COMMITS,
        "add_only": True,
    },
    "engines": [
        {"name": "verus", "path": "lib/verus_engine.py", "serves_properties": sorted(p for p, s in registry.PROPERTIES.items() if s.get("verus_units") and p in T.CHECKS),
         "kind_free_text": "Verus 0.2026.09.13 on real functions extracted from /repo on every run (N-rules + woven contract overlays in vx/)"},
        {"name": "kani", "path": "lib/kani_engine.py", "serves_properties": sorted(p for p, s in registry.PROPERTIES.items() if s.get("kani_units") and p in T.CHECKS),
         "kind_free_text": "Kani 0.68 / CBMC 6.11 on a scratch copy of the workspace with harness modules (kc/) appended in-crate"},
        {"name": "native", "path": "lib/native_engine.py", "serves_properties": sorted(p for p, s in registry.PROPERTIES.items() if s.get("native_units") and p in T.CHECKS),
         "kind_free_text": "bounded stand-in only, never counted as proof: the Kani harnesses' triples (same oracles) executed natively on a scratch copy over "
                           "stated enumerated domains (kn/), for sizes where CBMC does not finish (long sorts, block-wise scans)"},
    ],
    "checks": checks,
    "not_applicable": na,
    "notes": T.NOTES,
}
json.dump(m, open(os.path.join(HERE, "..", "MANIFEST.json"), "w"), indent=1)
print("wrote MANIFEST.json: %d checks, %d not applicable" % (len(checks), len(na)))
