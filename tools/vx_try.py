#!/usr/bin/env python3
"""dev helper: assemble a Verus unit from /repo, run Verus, print diagnostics.
usage: vx_try.py <unit> [--canary] [--skeleton fn]"""
import os, sys, json, subprocess
sys.path.insert(0, os.path.join(os.path.dirname(os.path.abspath(__file__)), "..", "lib"))
import verus_engine, registry
from common import Undecided
unit = registry.VERUS_UNITS[sys.argv[1]]
out = os.environ.get("VX_OUT", "/tmp/wk/vx")
os.makedirs(out, exist_ok=True)
try:
    text, spans, info = verus_engine.assemble(unit, canary="--canary" in sys.argv)
except Undecided as e:
    print("UNDECIDED:", e); sys.exit(2)
p = os.path.join(out, "unit_%s.rs" % unit.name)
open(p, "w").write(text)
print("assembled", p, "lines", text.count("\n"), "drift", info["drift_lines"])
cmd = ["verus", p, "--time", "--multiple-errors", "5"] + (["--rlimit", str(unit.rlimit)] if unit.rlimit else []) + unit.extra_args + sys.argv[2:]
cmd = [c for c in cmd if c != "--canary"]
r = subprocess.run(cmd, capture_output=True, text=True)
err = r.stderr
print(err[-int(os.environ.get("VX_TAIL", "6000")):])
print("\n".join(l for l in r.stdout.split("\n") if "verified" in l or "total-time" in l or "smt-run" in l))
