#!/usr/bin/env python3
"""Copy seed evaluation results ($SEED_OUT/<name>.json, written by tools/seed_eval.py on private snapshots) into
/verif/seeded/<name>/meta.json, keeping the origin / description fields already there, and fill the DESIGN.md table."""
import json, glob, os, subprocess, sys
HERE = os.path.dirname(os.path.abspath(__file__))
src = sys.argv[1]
for f in sorted(glob.glob(os.path.join(src, "*.json"))):
    name = os.path.basename(f)[:-5]
    dst = os.path.join(HERE, "..", "seeded", name, "meta.json")
    if not os.path.isdir(os.path.dirname(dst)):
        continue
    new = json.load(open(f))
    old = json.load(open(dst)) if os.path.exists(dst) else {}
    for k in ("origin", "needs_to_manifest", "control", "property_holds"):
        if k in old and k not in new:
            new[k] = old[k]
    # replay paths inside snapshots are meaningless outside them
    for key in ("check", "check_thorough"):
        if key in new:
            new[key]["violation_lines"] = [l.replace(l.split("replay=")[1].split("/replays/")[0], "/verif") if "replay=" in l and "/replays/" in l else l
                                           for l in new[key].get("violation_lines", [])]
    json.dump(new, open(dst, "w"), indent=1)
    print("merged", name, new.get("confirmed"), new.get("caught"))
