#!/usr/bin/env python3
"""Confirm a seeded change and run the checks against it.
usage: seed_eval.py <name> <property> <dir with mutant.patch and demo.patch> [--needs "text"] [--no-check]
1. fresh worktree of /repo HEAD: mutant applied -> whole existing suite must pass
2. + demo applied -> suite must FAIL; mutant reverted, demo kept -> suite must PASS
3. mutant applied to /repo itself -> ./check <property> (quick) -> undo
Everything is recorded in /verif/seeded/<name>/{patch.diff,demo.patch,meta.json}."""
import json, os, shutil, subprocess, sys, time
name, prop, src = sys.argv[1], sys.argv[2], sys.argv[3]
needs = sys.argv[sys.argv.index("--needs") + 1] if "--needs" in sys.argv else ""
out = "/verif/seeded/" + name
os.makedirs(out, exist_ok=True)
shutil.copy(os.path.join(src, "mutant.patch"), os.path.join(out, "patch.diff"))
shutil.copy(os.path.join(src, "demo.patch"), os.path.join(out, "demo.patch"))
def sh(cmd, cwd=None, timeout=3600):
    p = subprocess.run(cmd, shell=True, cwd=cwd, capture_output=True, text=True, timeout=timeout)
    return p.returncode, p.stdout + p.stderr
wt = "/tmp/seedchk/" + name
sh("git -C /repo worktree remove --force %s" % wt)
os.makedirs("/tmp/seedchk", exist_ok=True)
rc, o = sh("git -C /repo worktree add -q --detach %s HEAD" % wt); assert rc == 0, o
meta = {"name": name, "property": prop, "needs_to_manifest": needs, "repo_head": sh("git -C /repo rev-parse --short HEAD")[1].strip(), "ran": []}
def suite(label):
    t = time.time()
    rc, o = sh("cargo test --workspace --offline --no-fail-fast 2>&1 | grep -E 'test result|FAILED|panicked|error(\\[|:)' | head -40", cwd=wt)
    failed = ("FAILED" in o) or ("error" in o and "test result" not in o)
    passed_counts = [l for l in o.split("\n") if l.startswith("test result")]
    meta["ran"].append({"step": label, "cmd": "cargo test --workspace --offline --no-fail-fast", "failed": failed, "summary": passed_counts[:12], "wall_s": round(time.time() - t)})
    return failed, o
rc, o = sh("git apply %s/patch.diff" % out, cwd=wt); assert rc == 0, "mutant does not apply: " + o
f1, o1 = suite("existing suite with the change")
rc, o = sh("git apply %s/demo.patch" % out, cwd=wt); assert rc == 0, "demo does not apply: " + o
f2, o2 = suite("existing suite + demonstration, with the change")
rc, o = sh("git apply -R %s/patch.diff" % out, cwd=wt); assert rc == 0, o
f3, o3 = suite("existing suite + demonstration, without the change")
meta["confirmed"] = (not f1) and f2 and (not f3)
meta["confirm_detail"] = {"suite_passes_with_change": not f1, "demo_fails_with_change": f2, "demo_passes_without_change": not f3}
if f2:
    meta["demo_failure_excerpt"] = [l for l in o2.split("\n") if "panicked" in l or "FAILED" in l][:6]
sh("git -C /repo worktree remove --force %s" % wt)
if "--no-check" not in sys.argv and meta["confirmed"]:
    assert sh("git -C /repo status --porcelain")[1].strip() == "", "/repo not clean"
    rc, o = sh("git -C /repo apply %s/patch.diff" % out); assert rc == 0, o
    try:
        t = time.time()
        rc, o = sh("./check %s --tier quick" % prop, cwd="/verif", timeout=7200)
        meta["check"] = {"cmd": "./check %s --tier quick" % prop, "exit": rc, "wall_s": round(time.time() - t),
                         "violation_lines": [l for l in o.split("\n") if l.startswith("VIOLATION")],
                         "non_discharged": [l[:300] for l in o.split("\n") if l.startswith(("violated", "undecided", "UNDECIDED"))][:12]}
        meta["caught"] = rc == 1
    finally:
        sh("git -C /repo checkout -- . && git -C /repo clean -fdq")
json.dump(meta, open(os.path.join(out, "meta.json"), "w"), indent=1)
print(json.dumps(meta, indent=1))
