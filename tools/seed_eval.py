#!/usr/bin/env python3
"""Confirm a seeded change and run the checks against it -- entirely on private copies (never touches /repo).
usage: seed_eval.py <name> <property> [--needs "text"] [--tier quick|thorough] [--no-confirm]
expects /verif/seeded/<name>/{patch.diff,demo.patch}
1. copy of /repo HEAD: change applied -> whole existing suite must pass
2. + demonstration applied -> suite must FAIL; change reverted, demonstration kept -> suite must PASS
3. copy of /repo HEAD with the change: VERIF_REPO=<copy> ./check <property> -> records exit code, VIOLATION lines
Results -> /verif/seeded/<name>/meta.json (or $SEED_OUT/<name>.json when SEED_OUT is set)."""
import json, os, shutil, subprocess, sys, time
name, prop = sys.argv[1], sys.argv[2]
needs = sys.argv[sys.argv.index("--needs") + 1] if "--needs" in sys.argv else None
tier = sys.argv[sys.argv.index("--tier") + 1] if "--tier" in sys.argv else "quick"
VERIF = os.path.dirname(os.path.dirname(os.path.abspath(__file__)))
sdir = os.path.join(VERIF, "seeded", name)
def sh(cmd, cwd=None, timeout=7200, env=None):
    e = dict(os.environ); e.update(env or {})
    p = subprocess.run(cmd, shell=True, cwd=cwd, capture_output=True, text=True, timeout=timeout, env=e)
    return p.returncode, p.stdout + p.stderr
base = "/tmp/seedchk-%d/%s" % (os.getpid(), name)
shutil.rmtree(base, ignore_errors=True); os.makedirs(base)
def fresh(dst):
    rc, o = sh("git -C /repo archive HEAD | tar -x -C %s" % dst) if os.makedirs(dst, exist_ok=True) is None else (1, "")
    assert rc == 0, o
metap = os.path.join(sdir, "meta.json")
meta = json.load(open(metap)) if os.path.exists(metap) else {"name": name, "property": prop}
if needs: meta["needs_to_manifest"] = needs
meta["repo_head"] = sh("git -C /repo rev-parse --short HEAD")[1].strip()
try:
    if "--no-confirm" not in sys.argv:
        wt = base + "/confirm"; fresh(wt); meta["ran"] = []
        def suite(label):
            t = time.time()
            rc, o = sh("cargo test --workspace --offline --no-fail-fast 2>&1 | grep -E 'test result|FAILED|panicked|error(\\[|:)' | head -40", cwd=wt)
            failed = ("FAILED" in o) or ("error" in o and "test result" not in o)
            meta["ran"].append({"step": label, "cmd": "cargo test --workspace --offline --no-fail-fast", "failed": failed,
                                "summary": [l for l in o.split("\n") if l.startswith("test result")][:12], "wall_s": round(time.time() - t)})
            return failed, o
        rc, o = sh("git apply %s/patch.diff" % sdir, cwd=wt); assert rc == 0, "change does not apply: " + o
        f1, o1 = suite("existing suite with the change")
        rc, o = sh("git apply %s/demo.patch" % sdir, cwd=wt); assert rc == 0, "demonstration does not apply: " + o
        f2, o2 = suite("existing suite + demonstration, with the change")
        rc, o = sh("git apply -R %s/patch.diff" % sdir, cwd=wt); assert rc == 0, o
        f3, o3 = suite("existing suite + demonstration, without the change")
        meta["confirmed"] = (not f1) and f2 and (not f3)
        meta["confirm_detail"] = {"suite_passes_with_change": not f1, "demo_fails_with_change": f2, "demo_passes_without_change": not f3}
        if f2: meta["demo_failure_excerpt"] = [l for l in o2.split("\n") if "panicked" in l or "FAILED" in l][:6]
        shutil.rmtree(wt, ignore_errors=True)
    if meta.get("confirmed"):
        rp = base + "/repo"; fresh(rp)
        rc, o = sh("git apply %s/patch.diff" % sdir, cwd=rp); assert rc == 0, o
        t = time.time()
        rc, o = sh("./check %s --tier %s" % (prop, tier), cwd=VERIF, env={"VERIF_REPO": rp, "VERIF_LOGTAG": "-seed-" + name})
        key = "check" if tier == "quick" else "check_thorough"
        meta[key] = {"cmd": "VERIF_REPO=<copy of /repo HEAD + patch.diff> ./check %s --tier %s" % (prop, tier), "exit": rc,
                     "wall_s": round(time.time() - t), "verif_commit": sh("git -C %s rev-parse --short HEAD" % VERIF)[1].strip(),
                     "violation_lines": [l for l in o.split("\n") if l.startswith("VIOLATION")],
                     "non_discharged": [l[:400] for l in o.split("\n") if l.startswith(("violated", "undecided", "UNDECIDED"))][:12]}
        if tier == "quick": meta["caught"] = rc == 1
        else: meta["caught_thorough"] = rc == 1
finally:
    shutil.rmtree(base, ignore_errors=True)
outp = os.path.join(os.environ["SEED_OUT"], name + ".json") if os.environ.get("SEED_OUT") else metap
json.dump(meta, open(outp, "w"), indent=1)
print(json.dumps({k: meta.get(k) for k in ("name", "confirmed", "caught", "caught_thorough")}))
