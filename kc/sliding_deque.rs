// Kani harnesses for SlidingDeque (C15).  Appended to sliding_deque/src/sliding_deque.rs
// (scratch copy) as a child module, so the private representation is visible.
//
// Shape of every harness: Hoare triple from an ARBITRARY state satisfying the representation
// invariant (container length <= N, any contents, any admissible consumed prefix):
//     requires rep_ok(d)
//     ensures  rep_ok(d') /\ result and contiguous view as the reference deque
// By induction over operations this covers every history whose backing container stays
// within N elements; the bound is on size, not on history length.
use super::*;

const N: usize = @@N@@;
/// SmallVec-backed deques are explored up to NS elements only (inline capacity 2, so the
/// inline -> heap transition is inside the bound): CBMC runs out of memory beyond that on the
/// operations that slide (measured: > 20 GB at 5 elements).
const NS: usize = @@NS@@;

/// The representation invariant: the code's own `check_rep`, plus the C15 space clause
/// ("space held for consumed elements is at most half the backing container's length").
fn rep_ok<C>(d: &SlidingDeque<C>) -> bool
where
    C: PushTruncateContainer<Item = u8> + Clone + Default,
{
    let len = d.container.slice().len();
    d.consumed_prefix <= len / 2 && (d.consumed_prefix < len || d.consumed_prefix == 0)
}

/// Abstract view: the unconsumed elements, copied out.
struct View {
    len: usize,
    data: [u8; N + 1],
}

fn view_of<C>(d: &SlidingDeque<C>) -> View
where
    C: PushTruncateContainer<Item = u8> + Clone + Default,
{
    let s = &d.container.slice()[d.consumed_prefix..];
    assert!(s.len() <= N + 1);
    let mut data = [0u8; N + 1];
    let mut i = 0;
    while i < s.len() {
        data[i] = s[i];
        i += 1;
    }
    View { len: s.len(), data }
}

/// d's view == v.data[from .. from + len]
fn view_is<C>(d: &SlidingDeque<C>, v: &View, from: usize, len: usize) -> bool
where
    C: PushTruncateContainer<Item = u8> + Clone + Default,
{
    let s: &[u8] = &*d; // through the real Deref
    if s.len() != len {
        return false;
    }
    let mut i = 0;
    while i < len {
        if s[i] != v.data[from + i] {
            return false;
        }
        i += 1;
    }
    true
}

trait Mk: PushTruncateContainer<Item = u8> + Clone + Default {
    fn mk(s: &[u8]) -> Self;
}
impl Mk for Vec<u8> {
    fn mk(s: &[u8]) -> Self {
        s.to_vec()
    }
}
impl Mk for SmallVec<[u8; 2]> {
    fn mk(s: &[u8]) -> Self {
        SmallVec::from_slice(s)
    }
}

/// Drive `f` from EVERY valid state whose backing container has at most N elements: length and
/// consumed prefix are enumerated by concrete loops (CBMC's memmove model -- copy_within in `slide`
/// -- does not finish on symbolic sizes), the contents are symbolic.
fn for_each_state<C: Mk>(f: fn(SlidingDeque<C>)) {
    for_each_state_in::<C>(0, N, f)
}

/// ... restricted to container lengths lo..=hi (to split a slow harness over several CBMC runs)
fn for_each_state_in<C: Mk>(lo: usize, hi: usize, f: fn(SlidingDeque<C>)) {
    let arr: [u8; N] = kani::any();
    let mut len = lo;
    while len <= hi {
        let mut consumed = 0;
        while consumed <= len / 2 {
            let d = SlidingDeque { consumed_prefix: consumed, container: C::mk(&arr[..len]) };
            if rep_ok(&d) {
                f(d);
            }
            consumed += 1;
        }
        len += 1;
    }
}

fn h_push_back<C: Mk>(mut d: SlidingDeque<C>) {
    let v = view_of(&d);
    let x: u8 = kani::any();
    d.push_back(x);
    assert!(rep_ok(&d));
    assert!(d.len() == v.len + 1);
    assert!(view_is(&d, &v, 0, v.len) || d.len() != v.len); // prefix compared below
    let s: &[u8] = &*d;
    let mut i = 0;
    while i < v.len {
        assert!(s[i] == v.data[i]);
        i += 1;
    }
    assert!(s[v.len] == x);
    assert!(d.back() == Some(&x));
    kani::cover!(v.len >= 2);
    kani::cover!(d.consumed_prefix > 0);
}

fn h_pop_front<C: Mk>(mut d: SlidingDeque<C>) {
    let v = view_of(&d);
    let r = d.pop_front();
    assert!(rep_ok(&d));
    if v.len == 0 {
        assert!(r.is_none());
        assert!(view_is(&d, &v, 0, 0));
    } else {
        assert!(r == Some(v.data[0]));
        assert!(view_is(&d, &v, 1, v.len - 1));
    }
    kani::cover!(v.len == 0);
    kani::cover!(v.len == 1);
    kani::cover!(v.len > 1 && d.consumed_prefix == 0);
    kani::cover!(v.len > 1 && d.consumed_prefix > 0);
}

fn h_pop_back<C: Mk>(mut d: SlidingDeque<C>) {
    let v = view_of(&d);
    let r = d.pop_back();
    assert!(rep_ok(&d));
    if v.len == 0 {
        assert!(r.is_none());
        assert!(view_is(&d, &v, 0, 0));
    } else {
        assert!(r == Some(v.data[v.len - 1]));
        assert!(view_is(&d, &v, 0, v.len - 1));
    }
    kani::cover!(v.len == 0);
    kani::cover!(v.len == 1);
    kani::cover!(v.len > 1);
}

fn h_advance<C: Mk>(mut d: SlidingDeque<C>) {
    let v = view_of(&d);
    // counts 0..=N+1 concretely, plus the top of the usize range
    let base = d;
    let v = view_of(&base);
    let mut k = 0;
    while k <= N + 3 {
        let count = if k <= N + 1 { k } else if k == N + 2 { usize::MAX } else { 1usize << 63 };
        let mut d = base.clone();
        let r = d.advance(count);
        assert!(rep_ok(&d));
        let expect = if count < v.len { count } else { v.len };
        assert!(r == expect);
        assert!(view_is(&d, &v, expect, v.len - expect));
        kani::cover!(count > v.len);
        kani::cover!(count == usize::MAX);
        kani::cover!(count > 0 && count < v.len);
        k += 1;
    }
}

fn h_clear<C: Mk>(mut d: SlidingDeque<C>) {
    d.clear();
    assert!(rep_ok(&d));
    assert!(d.len() == 0 && d.is_empty());
    assert!(d.front().is_none() && d.back().is_none());
}

fn h_slide<C: Mk>(mut d: SlidingDeque<C>) {
    let v = view_of(&d);
    d.slide();
    assert!(rep_ok(&d));
    assert!(d.consumed_prefix == 0);
    assert!(view_is(&d, &v, 0, v.len));
    kani::cover!(v.len > 0);
}

fn h_views<C: Mk>(mut d: SlidingDeque<C>) {
    // front/back/front_mut/back_mut/deref/deref_mut: values, and in-place writes change
    // exactly the addressed element.
    let v = view_of(&d);
    assert!(d.len() == v.len);
    assert!(d.is_empty() == (v.len == 0));
    if v.len == 0 {
        assert!(d.front().is_none() && d.back().is_none());
        assert!(d.front_mut().is_none() && d.back_mut().is_none());
    } else {
        assert!(d.front() == Some(&v.data[0]));
        assert!(d.back() == Some(&v.data[v.len - 1]));
    }
    let which: u8 = kani::any();
    let x: u8 = kani::any();
    let mut v2 = View { len: v.len, data: v.data };
    if v.len > 0 {
        match which {
            0 => {
                *d.front_mut().unwrap() = x;
                v2.data[0] = x;
            }
            1 => {
                *d.back_mut().unwrap() = x;
                v2.data[v.len - 1] = x;
            }
            _ => {
                let idx: usize = kani::any();
                kani::assume(idx < v.len);
                let s: &mut [u8] = &mut *d;
                s[idx] = x;
                v2.data[idx] = x;
            }
        }
    }
    assert!(rep_ok(&d));
    assert!(view_is(&d, &v2, 0, v2.len));
    kani::cover!(v.len > 1 && which == 0);
    kani::cover!(v.len > 1 && which == 1);
    kani::cover!(v.len > 1 && which == 2);
}

fn h_new_from<C: Mk>() {
    let d: SlidingDeque<C> = SlidingDeque::new();
    assert!(rep_ok(&d) && d.len() == 0);
    let arr: [u8; N] = kani::any();
    let len: usize = kani::any();
    kani::assume(len <= N);
    let d2: SlidingDeque<C> = C::mk(&arr[..len]).into();
    assert!(rep_ok(&d2) && d2.len() == len);
}

macro_rules! both {
    ($h:ident, $vec:ident, $small:ident) => {
        #[kani::proof]
        #[kani::unwind(@@U@@)]
        fn $vec() {
            for_each_state::<Vec<u8>>($h::<Vec<u8>>)
        }
        #[kani::proof]
        #[kani::unwind(@@U@@)]
        fn $small() {
            for_each_state_in::<SmallVec<[u8; 2]>>(0, NS, $h::<SmallVec<[u8; 2]>>)
        }
    };
}

both!(h_push_back, c15_vec_push_back, c15_small_push_back);
both!(h_pop_front, c15_vec_pop_front, c15_small_pop_front);
// (pop_back and the larger advance states on the SmallVec backing exhaust CBMC's memory / time even at 3 elements:
// the SmallVec-specific obligation is the container contract below; the deque logic is proved generically by Verus)
#[kani::proof]
#[kani::unwind(@@U@@)]
fn c15_vec_pop_back() {
    for_each_state::<Vec<u8>>(h_pop_back::<Vec<u8>>)
}
macro_rules! advance_split {
    ($name:ident, $c:ty, $lo:expr, $hi:expr) => {
        #[kani::proof]
        #[kani::unwind(@@U@@)]
        fn $name() {
            for_each_state_in::<$c>($lo, $hi, h_advance::<$c>)
        }
    };
}
advance_split!(c15_vec_advance_a, Vec<u8>, 0, N - 2);
advance_split!(c15_vec_advance_b, Vec<u8>, N - 1, N - 1);
advance_split!(c15_vec_advance_c, Vec<u8>, N, N);
advance_split!(c15_small_advance_a, SmallVec<[u8; 2]>, 0, @@NSA@@);
both!(h_clear, c15_vec_clear, c15_small_clear);
both!(h_slide, c15_vec_slide, c15_small_slide);
both!(h_views, c15_vec_views, c15_small_views);
#[kani::proof]
#[kani::unwind(@@U@@)]
fn c15_vec_new_from() {
    h_new_from::<Vec<u8>>()
}
#[kani::proof]
#[kani::unwind(@@U@@)]
fn c15_small_new_from() {
    h_new_from::<SmallVec<[u8; 2]>>()
}


// ---- the container contract assumed by the Verus unit (vx/sliding_deque/overlays/trait.ovl), checked on the
// real Vec<u8> and SmallVec<[u8; 2]> implementations of PushTruncateContainer: every container of at most
// NC elements (length enumerated concretely, contents symbolic).
const NC: usize = @@NC@@;

fn same(a: &[u8], b: &[u8], n: usize) -> bool {
    if a.len() < n || b.len() < n {
        return false;
    }
    let mut i = 0;
    while i < n {
        if a[i] != b[i] {
            return false;
        }
        i += 1;
    }
    true
}

fn container_contract<C: Mk>(op: u8, max_len: usize) {
    let arr: [u8; N] = kani::any();
    let mut len = 0;
    while len <= max_len {
        let base = C::mk(&arr[..len]);
        // slice(): the contents, in order
        assert!(base.slice().len() == len && same(base.slice(), &arr, len));
        if op == 0 {
            // push: appends exactly one element
            let mut c = base.clone();
            let v: u8 = kani::any();
            PushTruncateContainer::push(&mut c, v);
            assert!(c.slice().len() == len + 1 && same(c.slice(), &arr, len) && c.slice()[len] == v);
        } else if op == 1 {
            // pop: removes and returns the last element; None and unchanged on empty
            let mut c = base.clone();
            let r = PushTruncateContainer::pop(&mut c);
            if len == 0 {
                assert!(r.is_none() && c.slice().len() == 0);
            } else {
                assert!(r == Some(arr[len - 1]) && c.slice().len() == len - 1 && same(c.slice(), &arr, len - 1));
            }
        } else if op == 2 {
            // truncate(k): keeps the first min(k, len) elements
            let mut k = 0;
            while k <= len + 1 {
                let mut c = base.clone();
                PushTruncateContainer::truncate(&mut c, k);
                let keep = if k < len { k } else { len };
                assert!(c.slice().len() == keep && same(c.slice(), &arr, keep));
                k += 1;
            }
        } else if len > 0 {
            // slice_mut: same contents; a write through it is what slice() shows afterwards; length unchanged
            let mut c = base.clone();
            let i: usize = kani::any();
            kani::assume(i < len);
            let x: u8 = kani::any();
            {
                let m = c.slice_mut();
                assert!(m.len() == len && same(m, &arr, len));
                m[i] = x;
            }
            assert!(c.slice().len() == len && c.slice()[i] == x);
            let j: usize = kani::any();
            kani::assume(j < len && j != i);
            assert!(c.slice()[j] == arr[j]);
        }
        len += 1;
    }
}

macro_rules! contract {
    ($name:ident, $c:ty, $op:expr, $max:expr) => {
        #[kani::proof]
        #[kani::unwind(@@U@@)]
        fn $name() {
            container_contract::<$c>($op, $max)
        }
    };
}
contract!(c15_vec_contract_push, Vec<u8>, 0, NC);
contract!(c15_vec_contract_pop, Vec<u8>, 1, NC);
contract!(c15_vec_contract_truncate, Vec<u8>, 2, NC);
contract!(c15_vec_contract_slice_mut, Vec<u8>, 3, NC);
contract!(c15_smallvec_contract_push, SmallVec<[u8; 2]>, 0, NS);
contract!(c15_smallvec_contract_pop, SmallVec<[u8; 2]>, 1, NS);
contract!(c15_smallvec_contract_truncate, SmallVec<[u8; 2]>, 2, NS);
contract!(c15_smallvec_contract_slice_mut, SmallVec<[u8; 2]>, 3, NS);
