// Kani harnesses for ByteArena::read_n (C17).  Appended to owning_iovec/src/byte_arena/mod.rs (scratch
// copy) as a child module.  BOUNDED: reader scripts of at most S = @@S@@ steps over
// {deliver k bytes, Interrupted, end of file, hard error}, count <= CAP = @@CAP@@, max_attempts <= S.
// Only `read_n_impl` (safe code; the arena is not touched) and the count == 0 path of `read_n` run here:
// the alloc/release wrapper around it is unsafe arena code that Kani cannot load (measured out of memory).
use super::*;
use std::io::ErrorKind;

const S: usize = @@S@@;
const CAP: usize = @@CAP@@;

#[derive(Clone, Copy)]
enum Step {
    Deliver(usize),
    Interrupted,
    Eof,
    Hard(u8),
}

fn hard_kind(h: u8) -> ErrorKind {
    // every kind but Interrupted is a hard error for read_n ("stops at the first non-interrupt error")
    match h % 6 {
        0 => ErrorKind::Other,
        1 => ErrorKind::WouldBlock,
        2 => ErrorKind::TimedOut,
        3 => ErrorKind::BrokenPipe,
        4 => ErrorKind::UnexpectedEof,
        _ => ErrorKind::ConnectionReset,
    }
}


struct Script {
    steps: [Step; S],
    data: [u8; CAP],
    pos: usize,          // calls made so far
    delivered: usize,    // bytes handed over so far
    count: usize,        // what the caller asked read_n for
    finished: bool,      // EOF or a hard error was returned: no further call is allowed
    last_err: Option<ErrorKind>,
    eof_seen: bool,
}

impl Read for Script {
    fn read(&mut self, dst: &mut [u8]) -> std::io::Result<usize> {
        // stops at end of file or at the first non-interrupt error
        assert!(!self.finished);
        // never asks for more than `count` bytes in total: each request is for what is still missing
        assert!(dst.len() == self.count - self.delivered);
        assert!(self.pos < S);
        let step = self.steps[self.pos];
        self.pos += 1;
        match step {
            Step::Deliver(k) => {
                let k = if k < dst.len() { k } else { dst.len() };
                if k == 0 {
                    // a zero-length delivery into a non-empty buffer IS end of file for Read
                    self.finished = true;
                    self.eof_seen = true;
                    self.last_err = None;
                    return Ok(0);
                }
                let mut i = 0;
                while i < k {
                    dst[i] = self.data[self.delivered + i];
                    i += 1;
                }
                self.delivered += k;
                Ok(k)
            }
            Step::Interrupted => {
                self.last_err = Some(ErrorKind::Interrupted);
                Err(ErrorKind::Interrupted.into())
            }
            Step::Eof => {
                self.finished = true;
                self.eof_seen = true;
                self.last_err = None;
                Ok(0)
            }
            Step::Hard(h) => {
                self.finished = true;
                self.last_err = Some(hard_kind(h));
                Err(hard_kind(h).into())
            }
        }
    }
}

fn any_step() -> Step {
    let sel: u8 = kani::any();
    match sel {
        0 => {
            let k: usize = kani::any();
            kani::assume(k <= CAP);
            Step::Deliver(k)
        }
        1 => Step::Interrupted,
        2 => Step::Eof,
        _ => Step::Hard(kani::any()),
    }
}

#[kani::proof]
#[kani::unwind(@@U@@)]
fn c17_read_n_impl_scripts() {
    let mut steps = [Step::Eof; S];
    let mut i = 0;
    while i < S {
        steps[i] = any_step();
        i += 1;
    }
    let count: usize = kani::any();
    kani::assume(count >= 1 && count <= CAP);
    let attempts: usize = kani::any();
    kani::assume(attempts >= 1 && attempts <= S);
    let mut script = Script {
        steps,
        data: kani::any(),
        pos: 0,
        delivered: 0,
        count,
        finished: false,
        last_err: None,
        eof_seen: false,
    };
    let buf: &'static mut [u8; CAP] = Box::leak(Box::new([0xAAu8; CAP]));
    let peek: *const u8 = buf.as_ptr(); // the 'static borrow is handed over; read the result back through this
    let mut arena = ByteArena::default();
    let r = arena.read_n_impl(&mut script, &mut buf[..count], NonZeroUsize::new(attempts).unwrap());
    // calls the reader at most max_attempts times
    assert!(script.pos <= attempts);
    match &r {
        Ok(got) => {
            let got = *got;
            // returns exactly the bytes delivered so far, in order
            assert!(got == script.delivered);
            assert!(got <= count);
            let mut i = 0;
            while i < got {
                assert!(unsafe { *peek.add(i) } == script.data[i]);
                i += 1;
            }
            // succeeds whenever at least one byte was delivered, or end of file came first, or nothing failed
            assert!(script.delivered > 0 || script.last_err.is_none());
        }
        Err(e) => {
            // fails only when nothing was delivered, and with the LAST error
            assert!(script.delivered == 0);
            assert!(script.last_err == Some(e.kind()));
        }
    }
    // it keeps going (within its attempts) until full, EOF or a hard error
    assert!(script.finished || script.delivered == count || script.pos == attempts);
    kani::cover!(r.is_ok() && script.delivered == count && script.pos > 1);
    kani::cover!(r.is_ok() && script.delivered < count && script.eof_seen && script.delivered > 0);
    kani::cover!(r.is_err() && script.pos == attempts && attempts > 1);
    kani::cover!(r.is_err() && script.pos < attempts);
    kani::cover!(r.is_ok() && script.delivered == 0 && script.eof_seen);
    kani::cover!(r.is_ok() && script.delivered > 0 && matches!(script.last_err, Some(k) if k != ErrorKind::Interrupted));
}

/// count == 0: an empty slice, without reading (this path allocates nothing).
#[kani::proof]
#[kani::unwind(@@U@@)]
fn c17_read_n_zero_count() {
    let mut script = Script {
        steps: [Step::Hard(0); S],
        data: kani::any(),
        pos: 0,
        delivered: 0,
        count: 0,
        finished: false,
        last_err: None,
        eof_seen: false,
    };
    let attempts: usize = kani::any();
    kani::assume(attempts >= 1);
    let mut arena = ByteArena::default();
    let r = arena.read_n(&mut script, 0, NonZeroUsize::new(attempts).unwrap());
    assert!(r.is_ok());
    assert!(r.unwrap().slice().is_empty());
    assert!(script.pos == 0);
}
