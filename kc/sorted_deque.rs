// Kani harnesses for SortedDeque (C16).  Appended to sliding_deque/src/sorted_deque.rs (scratch copy)
// as a child module.  Same shape as C15: every operation from EVERY valid state with at most N
// physical items (length and consumed prefix enumerated concretely, keys / values / erased flags
// symbolic), against a reference ordered map = the list of live items.
use super::*;

const N: usize = @@M@@;

/// The two provided item conventions.
trait Kind {
    type Item: Copy + PartialEq;
    type Key;
    fn item(k: u8, v: Option<u8>) -> Self::Item;
    fn k(i: &Self::Item) -> u8;
    fn v(i: &Self::Item) -> Option<u8>;
    /// the key under which `i` is looked up
    fn key(i: &Self::Item) -> Self::Key;
    /// whether looking up `probe`'s key denotes `it` (key equality / whole-item equality)
    fn matches(it: &Self::Item, probe: &Self::Item) -> bool;
    /// strict order on the comparison keys of two items (key order / whole-item order)
    fn lt(a: &Self::Item, b: &Self::Item) -> bool;
}

struct Pairs;
impl Kind for Pairs {
    type Item = (u8, Option<u8>);
    type Key = u8;
    fn item(k: u8, v: Option<u8>) -> Self::Item {
        (k, v)
    }
    fn k(i: &Self::Item) -> u8 {
        i.0
    }
    fn v(i: &Self::Item) -> Option<u8> {
        i.1
    }
    fn key(i: &Self::Item) -> u8 {
        i.0
    }
    fn matches(it: &Self::Item, probe: &Self::Item) -> bool {
        it.0 == probe.0
    }
    fn lt(a: &Self::Item, b: &Self::Item) -> bool {
        a.0 < b.0
    }
}

#[derive(Clone, Copy, Ord, PartialOrd, Eq, PartialEq)]
struct Whole {
    key: u8,
    value: Option<u8>,
}
impl SortedDequeItem for Whole {
    fn mark_erased(&mut self) {
        self.value = None
    }
    fn is_erased(&self) -> bool {
        self.value.is_none()
    }
}
struct Wholes;
impl Kind for Wholes {
    type Item = Whole;
    type Key = Whole;
    fn item(k: u8, v: Option<u8>) -> Whole {
        Whole { key: k, value: v }
    }
    fn k(i: &Whole) -> u8 {
        i.key
    }
    fn v(i: &Whole) -> Option<u8> {
        i.value
    }
    fn key(i: &Whole) -> Whole {
        *i
    }
    fn matches(it: &Whole, probe: &Whole) -> bool {
        *it == *probe
    }
    fn lt(a: &Whole, b: &Whole) -> bool {
        a < b
    }
}

type SD<K> = SortedDeque<Vec<<K as Kind>::Item>, ()>;

/// Reference model: the live items, in order.
struct Model<K: Kind> {
    len: usize,
    items: [Option<K::Item>; N + 1],
}

fn model_of<K: Kind>(d: &SD<K>) -> Model<K>
where
    (): SortedDequeMarker<K::Item, Key = K::Key>,
{
    let s: &[K::Item] = &d.items;
    let mut items = [None; N + 1];
    let mut len = 0;
    let mut i = 0;
    while i < s.len() {
        if K::v(&s[i]).is_some() {
            items[len] = Some(s[i]);
            len += 1;
        }
        i += 1;
    }
    Model { len, items }
}

/// rep_ok: inner deque invariant, keys strictly increasing, first and last physical items live.
fn rep_ok<K: Kind>(d: &SD<K>) -> bool
where
    (): SortedDequeMarker<K::Item, Key = K::Key>,
{
    let phys = d.items.len();
    let s: &[K::Item] = &d.items;
    let mut i = 0;
    while i + 1 < phys {
        if !K::lt(&s[i], &s[i + 1]) {
            return false;
        }
        i += 1;
    }
    if phys > 0 && (K::v(&s[0]).is_none() || K::v(&s[phys - 1]).is_none()) {
        return false;
    }
    true
}

fn same_model<K: Kind>(a: &Model<K>, b: &Model<K>, skip: usize) -> bool {
    // b == a with element `skip` removed (skip >= a.len: no removal)
    let expect_len = if skip < a.len { a.len - 1 } else { a.len };
    if b.len != expect_len {
        return false;
    }
    let mut i = 0;
    let mut j = 0;
    while i < a.len {
        if i != skip {
            if a.items[i] != b.items[j] {
                return false;
            }
            j += 1;
        }
        i += 1;
    }
    true
}

/// Every valid state with at most N physical items.
fn for_each_state<K: Kind>(f: fn(SD<K>))
where
    (): SortedDequeMarker<K::Item, Key = K::Key>,
{
    for_each_state_in::<K>(0, N, f)
}

/// ... restricted to lo..=hi physical items before consumption (to split a slow harness over several CBMC runs)
fn for_each_state_in<K: Kind>(lo: usize, hi: usize, f: fn(SD<K>))
where
    (): SortedDequeMarker<K::Item, Key = K::Key>,
{
    let keys: [u8; N] = kani::any();
    let vals: [Option<u8>; N] = kani::any();
    let mut len = lo;
    while len <= hi {
        let mut consumed = 0;
        while consumed <= len / 2 {
            if consumed < len || consumed == 0 {
                let mut v: Vec<K::Item> = Vec::new();
                let mut i = 0;
                while i < len {
                    v.push(K::item(keys[i], vals[i]));
                    i += 1;
                }
                let inner: SlidingDeque<Vec<K::Item>> = v.into();
                let d = SortedDeque { items: with_prefix(inner, consumed), marker: () };
                if rep_ok::<K>(&d) {
                    f(d);
                }
            }
            consumed += 1;
        }
        len += 1;
    }
}

/// A SlidingDeque whose representation has `consumed` consumed-but-not-yet-slid slots in front.
/// Built from the public API: push enough, then advance -- `advance` only slides past len/2.
fn with_prefix<T: Copy>(d: SlidingDeque<Vec<T>>, consumed: usize) -> SlidingDeque<Vec<T>> {
    let mut d = d;
    if consumed > 0 {
        let n = d.advance(consumed);
        assert!(n == consumed);
    }
    d
}

fn h_find<K: Kind>(d: SD<K>)
where
    (): SortedDequeMarker<K::Item, Key = K::Key>,
{
    let m = model_of::<K>(&d);
    let pk: u8 = kani::any();
    let pv: u8 = kani::any();
    let probe = K::item(pk, Some(pv));
    let r = d.find(&K::key(&probe)).copied();
    // reference: the live item whose lookup key equals the probe's
    let mut expect: Option<K::Item> = None;
    let mut i = 0;
    while i < m.len {
        let it = m.items[i].unwrap();
        if K::matches(&it, &probe) {
            expect = Some(it);
        }
        i += 1;
    }
    assert!(r == expect);
    assert!(rep_ok::<K>(&d));
    kani::cover!(r.is_some());
    kani::cover!(r.is_none() && m.len > 1);
}

fn h_remove<K: Kind>(d: SD<K>)
where
    (): SortedDequeMarker<K::Item, Key = K::Key>,
{
    let mut d = d;
    let m = model_of::<K>(&d);
    let pk: u8 = kani::any();
    let pv: u8 = kani::any();
    let probe = K::item(pk, Some(pv));
    let mut idx = usize::MAX;
    let mut i = 0;
    while i < m.len {
        if K::matches(&m.items[i].unwrap(), &probe) {
            idx = i;
        }
        i += 1;
    }
    let r = d.remove(&K::key(&probe));
    assert!(rep_ok::<K>(&d));
    let m2 = model_of::<K>(&d);
    if idx == usize::MAX {
        assert!(r.is_none());
        assert!(same_model(&m, &m2, usize::MAX));
    } else {
        assert!(r == m.items[idx]);
        assert!(same_model(&m, &m2, idx));
        // removed keys are never found again
        assert!(d.find(&K::key(&probe)).is_none());
    }
    kani::cover!(idx == 0 && m.len > 1);
    kani::cover!(idx != usize::MAX && idx + 1 == m.len && m.len > 1);
    kani::cover!(idx != usize::MAX && idx > 0 && idx + 1 < m.len);
}

fn h_pop_first<K: Kind>(d: SD<K>)
where
    (): SortedDequeMarker<K::Item, Key = K::Key>,
{
    let mut d = d;
    let m = model_of::<K>(&d);
    assert!(d.first().copied() == m.items[0]);
    let r = d.pop_first();
    assert!(rep_ok::<K>(&d));
    let m2 = model_of::<K>(&d);
    if m.len == 0 {
        assert!(r.is_none() && m2.len == 0);
    } else {
        assert!(r == m.items[0]);
        assert!(same_model(&m, &m2, 0));
    }
    kani::cover!(m.len > 1);
}

fn h_pop_last<K: Kind>(d: SD<K>)
where
    (): SortedDequeMarker<K::Item, Key = K::Key>,
{
    let mut d = d;
    let m = model_of::<K>(&d);
    if m.len > 0 {
        assert!(d.last().copied() == m.items[m.len - 1]);
    } else {
        assert!(d.last().is_none());
    }
    let r = d.pop_last();
    assert!(rep_ok::<K>(&d));
    let m2 = model_of::<K>(&d);
    if m.len == 0 {
        assert!(r.is_none() && m2.len == 0);
    } else {
        assert!(r == m.items[m.len - 1]);
        assert!(same_model(&m, &m2, m.len - 1));
    }
    kani::cover!(m.len > 1);
}

fn h_iter_clear<K: Kind>(d: SD<K>)
where
    (): SortedDequeMarker<K::Item, Key = K::Key>,
{
    let mut d = d;
    let m = model_of::<K>(&d);
    assert!(d.is_empty() == (m.len == 0));
    let mut n = 0;
    let mut prev: Option<K::Item> = None;
    for it in d.iter() {
        assert!(n < m.len);
        assert!(Some(*it) == m.items[n]);
        if let Some(p) = prev {
            assert!(K::lt(&p, it)); // ascending key order
        }
        prev = Some(*it);
        n += 1;
    }
    assert!(n == m.len);
    d.clear();
    assert!(rep_ok::<K>(&d));
    assert!(d.is_empty() && d.first().is_none() && d.last().is_none());
    assert!(d.iter().next().is_none());
}

fn h_push_ok<K: Kind>(d: SD<K>)
where
    (): SortedDequeMarker<K::Item, Key = K::Key>,
{
    let mut d = d;
    let m = model_of::<K>(&d);
    let k: u8 = kani::any();
    let v: Option<u8> = kani::any();
    let item = K::item(k, v);
    // accepted pushes: erased item (no-op), or strictly greater than the current last item
    kani::assume(v.is_none() || m.len == 0 || K::lt(&m.items[m.len - 1].unwrap(), &item));
    d.push_back_or_panic(item);
    assert!(rep_ok::<K>(&d));
    let m2 = model_of::<K>(&d);
    if v.is_none() {
        assert!(same_model(&m, &m2, usize::MAX));
    } else {
        assert!(m2.len == m.len + 1);
        assert!(m2.items[m.len] == Some(item));
        let mut i = 0;
        while i < m.len {
            assert!(m2.items[i] == m.items[i]);
            i += 1;
        }
        assert!(d.last().copied() == Some(item));
    }
    kani::cover!(v.is_none() && m.len > 0);
    kani::cover!(v.is_some() && m.len > 0);
}

fn h_push_panics<K: Kind>(d: SD<K>)
where
    (): SortedDequeMarker<K::Item, Key = K::Key>,
{
    let mut d = d;
    let m = model_of::<K>(&d);
    let k: u8 = kani::any();
    let v: u8 = kani::any();
    if m.len > 0 && !K::lt(&m.items[m.len - 1].unwrap(), &K::item(k, Some(v))) {
        // must panic: the marker after the call has to be unreachable (the engine accepts this harness
        // only if every failed check lies inside push_back_or_panic and the marker is not among them)
        d.push_back_or_panic(K::item(k, Some(v)));
        assert!(false, "VERIF-MARKER-NOT-PANICKED");
    }
}

macro_rules! kinds {
    ($h:ident, $p:ident, $w:ident) => {
        #[kani::proof]
        #[kani::unwind(@@U@@)]
        fn $p() {
            for_each_state::<Pairs>($h::<Pairs>)
        }
        #[kani::proof]
        #[kani::unwind(@@U@@)]
        fn $w() {
            for_each_state::<Wholes>($h::<Wholes>)
        }
    };
}
kinds!(h_find, c16_pairs_find, c16_whole_find);
macro_rules! kinds_split {
    ($h:ident, $pa:ident, $pb:ident, $wa:ident, $wb:ident) => {
        #[kani::proof]
        #[kani::unwind(@@U@@)]
        fn $pa() {
            for_each_state_in::<Pairs>(0, N - 1, $h::<Pairs>)
        }
        #[kani::proof]
        #[kani::unwind(@@U@@)]
        fn $pb() {
            for_each_state_in::<Pairs>(N, N, $h::<Pairs>)
        }
        #[kani::proof]
        #[kani::unwind(@@U@@)]
        fn $wa() {
            for_each_state_in::<Wholes>(0, N - 1, $h::<Wholes>)
        }
        #[kani::proof]
        #[kani::unwind(@@U@@)]
        fn $wb() {
            for_each_state_in::<Wholes>(N, N, $h::<Wholes>)
        }
    };
}
/// Whole-item ordering only: two neighbouring physical items share the `key` field (they differ, and are ordered, by
/// their values).  Erasing one of them changes its rank ((k, None) < (k, Some(_))): known finding F6.  `remove` is
/// therefore checked on the two halves of the state space separately, so that the finding is confined to one of them.
fn has_tied_key_fields(d: &SD<Wholes>) -> bool {
    let s: &[Whole] = &d.items;
    let mut i = 0;
    while i + 1 < s.len() {
        if s[i].key == s[i + 1].key {
            return true;
        }
        i += 1;
    }
    false
}
fn h_remove_whole_distinct(d: SD<Wholes>) {
    if !has_tied_key_fields(&d) {
        h_remove::<Wholes>(d)
    }
}
fn h_remove_whole_tied(d: SD<Wholes>) {
    if has_tied_key_fields(&d) {
        kani::cover!(true);
        h_remove::<Wholes>(d)
    }
}
#[kani::proof]
#[kani::unwind(@@U@@)]
fn c16_pairs_remove_a() {
    for_each_state_in::<Pairs>(0, N - 1, h_remove::<Pairs>)
}
#[kani::proof]
#[kani::unwind(@@U@@)]
fn c16_pairs_remove_b() {
    for_each_state_in::<Pairs>(N, N, h_remove::<Pairs>)
}
#[kani::proof]
#[kani::unwind(@@U@@)]
fn c16_whole_remove_a() {
    for_each_state_in::<Wholes>(0, N - 1, h_remove_whole_distinct)
}
#[kani::proof]
#[kani::unwind(@@U@@)]
fn c16_whole_remove_b() {
    for_each_state_in::<Wholes>(N, N, h_remove_whole_distinct)
}
/// The other half: states with tied key fields (3 physical items are enough to show F6).
#[kani::proof]
#[kani::unwind(@@U@@)]
fn c16_whole_remove_tied_keys() {
    for_each_state_in::<Wholes>(0, 3, h_remove_whole_tied)
}
kinds_split!(h_pop_first, c16_pairs_pop_first_a, c16_pairs_pop_first_b, c16_whole_pop_first_a, c16_whole_pop_first_b);
kinds_split!(h_pop_last, c16_pairs_pop_last_a, c16_pairs_pop_last_b, c16_whole_pop_last_a, c16_whole_pop_last_b);
kinds_split!(h_iter_clear, c16_pairs_iter_clear_a, c16_pairs_iter_clear_b, c16_whole_iter_clear_a, c16_whole_iter_clear_b);
kinds!(h_push_ok, c16_pairs_push_ok, c16_whole_push_ok);

#[kani::proof]
#[kani::unwind(@@U@@)]
fn c16_pairs_push_panics() {
    for_each_state::<Pairs>(h_push_panics::<Pairs>)
}
#[kani::proof]
#[kani::unwind(@@U@@)]
fn c16_whole_push_panics() {
    for_each_state::<Wholes>(h_push_panics::<Wholes>)
}

/// The contract the Verus unit `sorted_deque` ASSUMES for the private `cleanup_front` (its body iterates with
/// `.iter().enumerate()`, outside Verus's dialect): from any inner-deque-valid state it drops exactly the leading
/// run of erased items and touches nothing else.  No other precondition: erased flags are arbitrary (all erased,
/// erased items behind live ones, ...).  BOUNDED: at most NCF = @@NCF@@ physical items, consumed prefix 0 or 1.
const NCF: usize = @@NCF@@;

fn cleanup_front_contract<K: Kind>()
where
    (): SortedDequeMarker<K::Item, Key = K::Key>,
{
    let vals: [Option<u8>; NCF + 1] = kani::any();
    let mut len = 0;
    while len <= NCF {
        let mut consumed = 0;
        while consumed <= 1 && consumed <= (len + consumed) / 2 {
            // len live-or-erased items after `consumed` consumed ones
            let mut v: Vec<K::Item> = Vec::new();
            let mut i = 0;
            while i < len + consumed {
                v.push(K::item(i as u8, vals[i]));
                i += 1;
            }
            if consumed < len + consumed || consumed == 0 {
                let inner: SlidingDeque<Vec<K::Item>> = v.into();
                let mut d: SD<K> = SortedDeque { items: with_prefix(inner, consumed), marker: () };
                // reference: number of leading erased items
                let mut k = 0;
                while k < len && vals[consumed + k].is_none() {
                    k += 1;
                }
                d.cleanup_front();
                let s: &[K::Item] = &d.items;
                assert!(s.len() == len - k);
                let mut j = 0;
                while j < len - k {
                    assert!(s[j] == K::item((consumed + k + j) as u8, vals[consumed + k + j]));
                    j += 1;
                }
                kani::cover!(len == NCF && k == NCF);
                kani::cover!(len == NCF && k == 1 && vals[consumed + 2].is_none());
            }
            consumed += 1;
        }
        len += 1;
    }
}
#[kani::proof]
#[kani::unwind(@@UCF@@)]
fn c16_pairs_cleanup_front_contract() {
    cleanup_front_contract::<Pairs>()
}
#[kani::proof]
#[kani::unwind(@@UCF@@)]
fn c16_whole_cleanup_front_contract() {
    cleanup_front_contract::<Wholes>()
}
