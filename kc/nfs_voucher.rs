// Kani harness for nfs_voucher::get_base_time_unlocked (C18: "get_base_time_unlocked inherits the same guarantee").
// Appended to vouched_time/src/nfs_voucher.rs (scratch copy) as a child module.
//
// The function is run alone on the process-wide BASE_TIME for several values of `now` on both sides of every staleness
// threshold the crate knows (fresh, just inside / outside MAX_FORWARD_DISCREPANCY_MS, an hour, decades ahead, before
// the base).  The blocking Mutex::lock is replaced by a function that fails: reaching it on ANY path -- whatever `now`
// looks like relative to the stored base time -- is the violation (a writer may hold that lock forever).  The reader's
// loop must finish in one pass (unwinding assertion), as in the AtomicBaseTime harnesses.
use super::*;
use std::sync::{LockResult, Mutex, MutexGuard};

fn spin_hint_is_a_no_op() {}

fn forbidden_lock<'a, T>(_m: &'a Mutex<T>) -> LockResult<MutexGuard<'a, T>> {
    panic!("VERIF: blocking Mutex::lock() reached from get_base_time_unlocked, which must never wait for a writer");
}

#[kani::proof]
#[kani::stub(std::hint::spin_loop, spin_hint_is_a_no_op)]
#[kani::stub(std::thread::yield_now, spin_hint_is_a_no_op)]
#[kani::stub(std::sync::Mutex::lock, forbidden_lock)]
#[kani::unwind(2)]
fn c18_get_base_time_unlocked_never_locks() {
    let sel: u8 = kani::any();
    let ahead_ms: i64 = match sel % 8 {
        0 => 0,
        1 => 2_990,
        2 => 2_991,
        3 => 59_900,
        4 => 59_901,
        5 => 3_600_000,
        6 => 1_713_027_659_000,
        _ => -1_000,
    };
    let now = time::OffsetDateTime::UNIX_EPOCH + time::Duration::milliseconds(ahead_ms);
    let got = get_base_time_unlocked(now);
    // never fails; with no update ever made, the answer is the initial epoch pair
    match got {
        Ok((base, _voucher)) => assert!(base == 0),
        Err(_) => panic!("VERIF: get_base_time_unlocked failed"),
    }
}
