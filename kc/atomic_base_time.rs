// Kani harnesses for AtomicBaseTime (C18).  Appended to vouched_time/src/atomic_base_time.rs (scratch
// copy) as a child module.
//
// "Where a writer is suspended" is a STATE: at most one writer is inside the critical section (it holds
// the lock), and whatever it has done so far it has done to the slot that is NOT the stable one
// (sequence % 2 picks the stable slot) -- possibly half of an update -- and then, last, to `sequence`.
// So the harness starts the reader / try_update caller from EVERY state of the form
//     sequence: any u64;  stable slot: a vouched pair;  other slot: ANY bits (mid-update garbage);
//     lock: held by the suspended writer, or free
// and runs it alone to completion (sequentially, i.e. the writer never resumes).  No hook in /repo is needed.
// Vouched pairs are concrete (a symbolic base time makes CBMC invert raffle's 64-bit multiplication inside
// the real assert; the property is about control flow and lock use, not about values).
use super::*;

const VOUCH: raffle::VouchingParameters = raffle::VouchingParameters::parse_or_die(
    "VOUCH-773ec2a0e62c20cd-f9e079b78e895091-fc1da7b1b77c57cb-594b9cce3091464a",
);

fn vouched(sel: u8) -> (u64, raffle::Voucher) {
    let t = match sel % 4 {
        0 => 0u64,
        1 => 42,
        2 => 1_713_027_659_000,
        _ => u64::MAX,
    };
    (t, VOUCH.vouch(t))
}

fn bits(v: raffle::Voucher) -> u64 {
    unsafe { TransmuteVoucher { voucher: v }.bits }
}

/// Every state a suspended writer can leave behind (see the header comment).
fn any_state() -> (AtomicBaseTime, (u64, raffle::Voucher)) {
    let abt = AtomicBaseTime::new();
    let sequence: u64 = kani::any();
    let stable = (sequence as usize) % 2;
    let pair = vouched(kani::any());
    abt.sequence.store(sequence, Ordering::Relaxed);
    abt.snapshots[stable].base_time_ms.store(pair.0, Ordering::Relaxed);
    abt.snapshots[stable].voucher.store(bits(pair.1), Ordering::Relaxed);
    abt.snapshots[1 - stable].base_time_ms.store(kani::any(), Ordering::Relaxed);
    abt.snapshots[1 - stable].voucher.store(kani::any(), Ordering::Relaxed);
    (abt, pair)
}

/// snapshot(): with the writer lock HELD by a writer that never resumes, completes in ONE pass of its
/// loop (unwind 2 + unwinding assertion: a second iteration is a verification failure), returns the
/// published pair, never panics -- and never touches the lock (taking it would block forever on the held
/// mutex, which Kani reports).
#[kani::proof]
#[kani::unwind(2)]
fn c18_snapshot_with_writer_suspended_holding_lock() {
    let (abt, pair) = any_state();
    let guard = abt.lock.lock().unwrap(); // the suspended writer
    let got = abt.snapshot();
    assert!(got.0 == pair.0 && bits(got.1) == bits(pair.1));
    // the lock is still held by "the writer": the reader did not release or replace it
    assert!(abt.lock.try_lock().is_err());
    drop(guard);
}

/// snapshot() with no writer inside: same guarantees.
#[kani::proof]
#[kani::unwind(2)]
fn c18_snapshot_lock_free() {
    let (abt, pair) = any_state();
    let got = abt.snapshot();
    assert!(got.0 == pair.0 && bits(got.1) == bits(pair.1));
    assert!(abt.lock.try_lock().is_ok());
}

/// try_update(): returns false instead of waiting whenever another writer holds the lock, and changes nothing.
#[kani::proof]
#[kani::unwind(2)]
fn c18_try_update_with_lock_held() {
    let (abt, _pair) = any_state();
    let seq0 = abt.sequence.load(Ordering::Relaxed);
    let guard = abt.lock.lock().unwrap(); // another writer, suspended forever
    let upd = vouched(kani::any());
    let r = abt.try_update(upd);
    assert!(!r);
    assert!(abt.sequence.load(Ordering::Relaxed) == seq0);
    drop(guard);
}

/// try_update() with the lock free: takes it without waiting, applies the update iff it is not older than
/// the current base time, releases the lock; a following snapshot sees the newest pair.
#[kani::proof]
#[kani::unwind(2)]
fn c18_try_update_lock_free() {
    let (abt, pair) = any_state();
    let seq0 = abt.sequence.load(Ordering::Relaxed);
    let upd = vouched(kani::any());
    let r = abt.try_update(upd);
    assert!(r == (upd.0 >= pair.0));
    assert!(abt.sequence.load(Ordering::Relaxed) == if r { seq0.wrapping_add(1) } else { seq0 });
    assert!(abt.lock.try_lock().is_ok());
    let got = abt.snapshot();
    let want = if r { upd } else { pair };
    assert!(got.0 == want.0 && bits(got.1) == bits(want.1));
    kani::cover!(r);
    kani::cover!(!r);
}
