// Kani harnesses for AtomicBaseTime (C18).  Appended to vouched_time/src/atomic_base_time.rs (scratch
// copy) as a child module.
//
// "Where a writer is suspended" is a STATE: at most one writer is inside the critical section (it holds
// the lock), and whatever it has done so far it has done to the slot that is NOT the stable one
// (sequence % 2 picks the stable slot) -- possibly half of an update -- and then, last, to `sequence`.
// So the harness starts the reader / try_update caller from EVERY state of the form
//     sequence: any u64;  stable slot: a vouched pair;  other slot: ANY bits (mid-update garbage);
//     lock: held by the suspended writer, or free
// and runs it alone to completion (sequentially, i.e. the writer never resumes).  No hook in /repo is needed.
// Vouched pairs are concrete (a symbolic base time makes CBMC invert raffle's 64-bit multiplication inside
// the real assert; the property is about control flow and lock use, not about values).
use super::*;

/// `std::hint::spin_loop` / `thread::yield_now` are scheduling hints without semantics; Kani does not model the
/// pause intrinsic, so every harness replaces the hint by this no-op (a reader that spins is then caught by the
/// unwinding assertion of its loop instead of stopping the verifier).
fn spin_hint_is_a_no_op() {}

const VOUCH: raffle::VouchingParameters = raffle::VouchingParameters::parse_or_die(
    "VOUCH-773ec2a0e62c20cd-f9e079b78e895091-fc1da7b1b77c57cb-594b9cce3091464a",
);

fn vouched(sel: u8) -> (u64, raffle::Voucher) {
    let t = match sel % 4 {
        0 => 0u64,
        1 => 42,
        2 => 1_713_027_659_000,
        _ => u64::MAX,
    };
    (t, VOUCH.vouch(t))
}

fn bits(v: raffle::Voucher) -> u64 {
    unsafe { TransmuteVoucher { voucher: v }.bits }
}

/// Every state a suspended writer can leave behind (see the header comment).
fn any_state() -> (AtomicBaseTime, (u64, raffle::Voucher)) {
    let abt = AtomicBaseTime::new();
    let sequence: u64 = kani::any();
    let stable = (sequence as usize) % 2;
    let pair = vouched(kani::any());
    abt.sequence.store(sequence, Ordering::Relaxed);
    abt.snapshots[stable].base_time_ms.store(pair.0, Ordering::Relaxed);
    abt.snapshots[stable].voucher.store(bits(pair.1), Ordering::Relaxed);
    abt.snapshots[1 - stable].base_time_ms.store(kani::any(), Ordering::Relaxed);
    abt.snapshots[1 - stable].voucher.store(kani::any(), Ordering::Relaxed);
    (abt, pair)
}

/// snapshot(): with the writer lock HELD by a writer that never resumes, completes in ONE pass of its
/// loop (unwind 2 + unwinding assertion: a second iteration is a verification failure), returns the
/// published pair, never panics -- and never touches the lock (taking it would block forever on the held
/// mutex, which Kani reports).
#[kani::proof]
#[kani::stub(std::hint::spin_loop, spin_hint_is_a_no_op)]
#[kani::stub(std::thread::yield_now, spin_hint_is_a_no_op)]
#[kani::unwind(2)]
fn c18_snapshot_with_writer_suspended_holding_lock() {
    let (abt, pair) = any_state();
    let guard = abt.lock.lock().unwrap(); // the suspended writer
    let got = abt.snapshot();
    assert!(got.0 == pair.0 && bits(got.1) == bits(pair.1));
    // the lock is still held by "the writer": the reader did not release or replace it
    assert!(abt.lock.try_lock().is_err());
    drop(guard);
}

/// snapshot() with no writer inside: same guarantees.
#[kani::proof]
#[kani::stub(std::hint::spin_loop, spin_hint_is_a_no_op)]
#[kani::stub(std::thread::yield_now, spin_hint_is_a_no_op)]
#[kani::unwind(2)]
fn c18_snapshot_lock_free() {
    let (abt, pair) = any_state();
    let got = abt.snapshot();
    assert!(got.0 == pair.0 && bits(got.1) == bits(pair.1));
    assert!(abt.lock.try_lock().is_ok());
}

/// try_update(): returns false instead of waiting whenever another writer holds the lock, and changes nothing.
#[kani::proof]
#[kani::stub(std::hint::spin_loop, spin_hint_is_a_no_op)]
#[kani::stub(std::thread::yield_now, spin_hint_is_a_no_op)]
#[kani::unwind(2)]
fn c18_try_update_with_lock_held() {
    let (abt, _pair) = any_state();
    let seq0 = abt.sequence.load(Ordering::Relaxed);
    let guard = abt.lock.lock().unwrap(); // another writer, suspended forever
    let upd = vouched(kani::any());
    let r = abt.try_update(upd);
    assert!(!r);
    assert!(abt.sequence.load(Ordering::Relaxed) == seq0);
    drop(guard);
}

/// try_update() with the lock free: takes it without waiting, applies the update iff it is not older than
/// the current base time, releases the lock; a following snapshot sees the newest pair.
#[kani::proof]
#[kani::stub(std::hint::spin_loop, spin_hint_is_a_no_op)]
#[kani::stub(std::thread::yield_now, spin_hint_is_a_no_op)]
#[kani::unwind(2)]
fn c18_try_update_lock_free() {
    let (abt, pair) = any_state();
    let seq0 = abt.sequence.load(Ordering::Relaxed);
    let upd = vouched(kani::any());
    let r = abt.try_update(upd);
    assert!(r == (upd.0 >= pair.0));
    assert!(abt.sequence.load(Ordering::Relaxed) == if r { seq0.wrapping_add(1) } else { seq0 });
    assert!(abt.lock.try_lock().is_ok());
    let got = abt.snapshot();
    let want = if r { upd } else { pair };
    assert!(got.0 == want.0 && bits(got.1) == bits(want.1));
    kani::cover!(r);
    kani::cover!(!r);
}

// ---- interference: writes that COMPLETE while the reader is mid-read ---------------------------------
// Every atomic load the reader performs is a preemption point: the stub below lets a writer (which holds the
// lock for the whole harness and never releases it) run zero or more complete `advance_once` updates right
// before the load -- the real writer code, on the real object -- up to a budget of W writes per snapshot call.
// `Mutex::lock` is replaced by a function that fails verification: whatever its retry history, the reader must
// never try to take the writer lock (it would wait forever: the writer is stopped holding it).
use std::sync::{LockResult, MutexGuard};

const W: u32 = @@W@@;

static mut ABT: *const AtomicBaseTime = std::ptr::null();
static mut TOKEN: *mut WriteToken = std::ptr::null_mut();
static mut BUDGET: u32 = 0;
static mut WRITES: u32 = 0;
static mut READER_RUNNING: bool = false;

fn forbidden_lock<'a, T>(_m: &'a Mutex<T>) -> LockResult<MutexGuard<'a, T>> {
    panic!("VERIF: blocking Mutex::lock() reached on a path that must never wait for a writer");
}

fn load_with_interference(a: &AtomicU64, order: Ordering) -> u64 {
    unsafe {
        if READER_RUNNING && BUDGET > 0 && kani::any() {
            READER_RUNNING = false; // the writer's own loads are not preemption points of the reader
            BUDGET -= 1;
            let t: u64 = match WRITES {
                0 => 100,
                1 => 101,
                2 => 102,
                3 => 103,
                4 => 104,
                _ => 105,
            };
            WRITES += 1;
            let _ = (*ABT).advance_once(&mut *TOKEN, (t, VOUCH.vouch(t)));
            READER_RUNNING = true;
        }
    }
    a.fetch_add(0, order)
}

#[kani::proof]
#[kani::stub(std::hint::spin_loop, spin_hint_is_a_no_op)]
#[kani::stub(std::thread::yield_now, spin_hint_is_a_no_op)]
#[kani::unwind(@@UW@@)]
#[kani::stub(std::sync::Mutex::lock, forbidden_lock)]
#[kani::stub(std::sync::atomic::Atomic::<u64>::load, load_with_interference)]
fn c18_snapshot_under_interfering_writes() {
    let (abt, _pair) = any_state();
    let mut guard = abt.lock.try_lock().unwrap(); // the writer: holds the lock for good
    unsafe {
        ABT = &abt;
        TOKEN = &mut *guard;
        BUDGET = W;
        WRITES = 0;
        READER_RUNNING = true;
    }
    let got = abt.snapshot(); // must return (unwinding assertion), must not panic, must not reach Mutex::lock
    unsafe {
        READER_RUNNING = false;
    }
    // a pair that was published as a unit (snapshot's own assertion checks the voucher)
    assert!(crate::BASE_TIME_CHECK.check(got.0, got.1));
    kani::cover!(unsafe { WRITES } == W);
    kani::cover!(unsafe { WRITES } == 0);
    drop(guard);
}

/// The poison flag of the writer lock, as far as code asks for it explicitly: arbitrary (a writer may have died).
fn any_poison_flag<T>(_m: &Mutex<T>) -> bool {
    kani::any()
}

/// try_update never reaches the blocking lock() either, whatever the lock's state (held or free; poison flag,
/// where the code consults it through is_poisoned(), arbitrary).
#[kani::proof]
#[kani::stub(std::sync::Mutex::is_poisoned, any_poison_flag)]
#[kani::stub(std::hint::spin_loop, spin_hint_is_a_no_op)]
#[kani::stub(std::thread::yield_now, spin_hint_is_a_no_op)]
#[kani::unwind(2)]
#[kani::stub(std::sync::Mutex::lock, forbidden_lock)]
fn c18_try_update_never_blocks() {
    let (abt, _pair) = any_state();
    let held: bool = kani::any();
    let guard = if held { Some(abt.lock.try_lock().unwrap()) } else { None };
    let r = abt.try_update(vouched(kani::any()));
    assert!(!(held && r));
    drop(guard);
}

// ---- the writer suspended at each of its own stores, with the REAL writer code ------------------------------
static mut STORE_BUDGET: usize = usize::MAX;
static mut STORES_DONE: usize = 0;

/// AtomicU64::store, counted.  Once the budget is used up the store does not happen: the writer is suspended
/// right before it and never resumes.  (The value is written through as_ptr(): `store` itself is the stubbed fn.)
fn store_until_suspended(a: &AtomicU64, v: u64, _order: Ordering) {
    unsafe {
        if STORES_DONE < STORE_BUDGET {
            STORES_DONE += 1;
            *a.as_ptr() = v;
        }
    }
}

/// The states of the header comment are what the ORIGINAL writer leaves behind.  This harness does not assume
/// them: it runs the real `advance_once` from any quiescent state and cuts it off before its (k+1)-th atomic store,
/// k = 0, 1, 2, 3 (slot base time, slot voucher, sequence = commit), holding the lock for good.  A lone reader must
/// then complete in one pass and return a pair that was published as a unit: the old one, or -- only after the
/// commit -- the new one.  (A writer that commits before the slot is complete fails here.)
#[kani::proof]
#[kani::stub(std::hint::spin_loop, spin_hint_is_a_no_op)]
#[kani::stub(std::thread::yield_now, spin_hint_is_a_no_op)]
#[kani::stub(std::sync::atomic::Atomic::<u64>::store, store_until_suspended)]
#[kani::stub(std::sync::Mutex::lock, forbidden_lock)]
#[kani::unwind(2)]
fn c18_snapshot_with_real_writer_cut_off_at_every_store() {
    let (abt, pair) = any_state();
    let mut guard = abt.lock.try_lock().unwrap(); // the writer: holds the lock for good
    let upd = vouched(kani::any());
    let k: usize = kani::any();
    kani::assume(k <= 3);
    unsafe {
        STORE_BUDGET = k;
        STORES_DONE = 0;
    }
    let _ = abt.advance_once(&mut *guard, upd); // the real writer, suspended before its (k+1)-th store
    let done = unsafe { STORES_DONE };
    unsafe {
        STORE_BUDGET = usize::MAX;
    }
    let got = abt.snapshot(); // alone; must return (unwinding assertion), must not panic, must not reach Mutex::lock
    assert!(crate::BASE_TIME_CHECK.check(got.0, got.1));
    let old = got.0 == pair.0 && bits(got.1) == bits(pair.1);
    let new = got.0 == upd.0 && bits(got.1) == bits(upd.1);
    assert!(old || new);
    // the new pair only once the writer has made all its stores
    assert!(old || done == 3);
    kani::cover!(done == 3 && new && !old);
    kani::cover!(done == 1);
    kani::cover!(done == 2 && old);
    drop(guard);
}
