// Kani harnesses for the hcobs crate root (hcobs/src/lib.rs).
use super::*;

/// C07 / constants: the production limits and the stuff sequence are what the format says.
/// (Loop-free, no inputs: complete.)  The Verus unit extracts the same items verbatim; this pins the
/// values that the `unsafe { NonZeroUsize::new_unchecked(..) }` initialisers produce in the real build.
#[kani::proof]
fn c07_constants() {
    assert!(RADIX == 253);
    assert!(STUFF_SEQUENCE == [0xfe, 0xfd]);
    assert!(PROD_PARAMS.max_initial_size.get() == 252);
    assert!(PROD_PARAMS.max_subsequent_size.get() == 253 * 253 - 1);
    assert!(PROD_PARAMS.max_subsequent_size.get() == 64008);
}

const L: usize = @@L@@;

/// The contract ASSUMED for find_stuff_sequence in the Verus unit, checked here on every slice of
/// length <= L (BOUNDED): Some(i) => FE FD at i and nowhere before; None => nowhere.
#[kani::proof]
#[kani::unwind(@@U@@)]
fn c07_find_stuff_sequence_bounded() {
    let buf: [u8; L] = kani::any();
    let len: usize = kani::any();
    kani::assume(len <= L);
    let s = &buf[..len];
    let r = find_stuff_sequence(s);
    let j: usize = kani::any();
    kani::assume(j < L && j + 1 < len);
    let stuff_at_j = s[j] == 0xfe && s[j + 1] == 0xfd;
    match r {
        Some(i) => {
            assert!(i + 1 < len);
            assert!(s[i] == 0xfe && s[i + 1] == 0xfd);
            if j < i {
                assert!(!stuff_at_j);
            }
        }
        None => assert!(!stuff_at_j),
    }
    kani::cover!(r == Some(0));
    kani::cover!(matches!(r, Some(i) if i + 2 == len && len == L));
    kani::cover!(r.is_none() && len == L);
}
