// Kani harnesses for MessageView (C12).  Appended to rough_tlv/src/decoder.rs (scratch copy)
// as a child module.  BOUNDED: every byte string of length <= L, L = @@L@@.
use super::*;

const L: usize = @@L@@;

fn le32(b: &[u8], at: usize) -> u32 {
    u32::from_le_bytes([b[at], b[at + 1], b[at + 2], b[at + 3]])
}

/// Acceptance rule transcribed from the property statement:
/// at least four bytes, room for the 2N-word header, non-decreasing offsets,
/// non-decreasing tags, last offset inside the payload.
fn format_allows(b: &[u8]) -> bool {
    if b.len() < 4 {
        return false;
    }
    let n = le32(b, 0) as u64;
    if 8 * n > b.len() as u64 {
        return false;
    }
    let n = n as usize;
    if n == 0 {
        return true;
    }
    // words 1 .. n-1 are the end offsets of values 0 .. n-2
    let mut i = 1;
    while i + 1 < n {
        if le32(b, 4 * i) > le32(b, 4 * (i + 1)) {
            return false;
        }
        i += 1;
    }
    // words n .. 2n-1 are the tags
    let mut i = n;
    while i + 1 < 2 * n {
        if le32(b, 4 * i) > le32(b, 4 * (i + 1)) {
            return false;
        }
        i += 1;
    }
    if n >= 2 {
        let last = le32(b, 4 * (n - 1)) as u64;
        if 8 * (n as u64) + last > b.len() as u64 {
            return false;
        }
    }
    true
}

fn any_input(buf: &[u8; L]) -> &[u8] {
    let len: usize = kani::any();
    kani::assume(len <= L);
    &buf[..len]
}

/// start offset (relative to the end of the header) of value i, per the layout
fn start_of(b: &[u8], n: usize, i: usize) -> usize {
    if i == 0 {
        0
    } else {
        le32(b, 4 * i) as usize
    }
}
fn end_of(b: &[u8], n: usize, i: usize) -> usize {
    if i + 1 == n {
        b.len() - 8 * n
    } else {
        le32(b, 4 * (i + 1)) as usize
    }
}

#[kani::proof]
#[kani::unwind(@@U@@)]
fn c12_new_accepts_exactly() {
    let buf: [u8; L] = kani::any();
    let b = any_input(&buf);
    let r = MessageView::new(Cow::Borrowed(b)); // must not panic
    assert!(r.is_ok() == format_allows(b));
    kani::cover!(r.is_ok() && le32(b, 0) == 0);
    kani::cover!(r.is_ok() && le32(b, 0) == 1);
    kani::cover!(r.is_ok() && le32(b, 0) == 2 && b.len() == L);
    kani::cover!(r.is_err() && b.len() >= 4 && le32(b, 0) == u32::MAX);
    kani::cover!(matches!(r, Err(DecodingError::NonMonotonicOffsets(_))) || L < 24);
    kani::cover!(matches!(r, Err(DecodingError::NonMonotonicTags(_))));
    kani::cover!(matches!(r, Err(DecodingError::TruncatedPayload(_))));
}

#[kani::proof]
#[kani::unwind(@@U@@)]
fn c12_values_tile() {
    let buf: [u8; L] = kani::any();
    let b = any_input(&buf);
    let r = MessageView::new(Cow::Borrowed(b));
    kani::assume(r.is_ok());
    let msg = r.unwrap();
    let n = le32(b, 0) as usize;
    assert!(msg.len() == n);
    assert!(msg.is_empty() == (n == 0));
    // values 0..n tile b[8n..] exactly and in order
    let i: usize = kani::any();
    kani::assume(i < n);
    let v = msg.get_value(i);
    assert!(v.is_some());
    let v = v.unwrap();
    let s = start_of(b, n, i);
    let e = end_of(b, n, i);
    assert!(s <= e && 8 * n + e <= b.len());
    assert!(v.len() == e - s);
    assert!(v.as_ptr() == b[8 * n + s..].as_ptr());
    // consecutive: value i+1 starts where value i ends; first starts at the header end,
    // last ends at the end of the buffer
    if i == 0 {
        assert!(s == 0);
    }
    if i + 1 == n {
        assert!(8 * n + e == b.len());
    } else {
        assert!(start_of(b, n, i + 1) == e);
    }
    kani::cover!(n == 2 && i == 1 && v.len() > 0);
    kani::cover!(n == 1 && v.len() > 0);
}

#[kani::proof]
#[kani::unwind(@@U@@)]
fn c12_accessors_agree() {
    let buf: [u8; L] = kani::any();
    let b = any_input(&buf);
    let r = MessageView::new(Cow::Borrowed(b));
    kani::assume(r.is_ok());
    let msg = r.unwrap();
    let n = le32(b, 0) as usize;
    let tags = msg.tags();
    assert!(tags.len() == n);
    let mut count = 0usize;
    for (tag, value) in msg.iter() {
        assert!(count < n);
        assert!(tag.value() == le32(b, 4 * (n + count)));
        assert!(tags[count] == tag);
        let g = msg.get(count);
        assert!(g.is_some());
        let (gt, gv) = g.unwrap();
        assert!(gt == tag);
        assert!(gv.as_ptr() == value.as_ptr() && gv.len() == value.len());
        let v = msg.get_value(count).unwrap();
        assert!(v.as_ptr() == value.as_ptr() && v.len() == value.len());
        count += 1;
    }
    assert!(count == n);
    kani::cover!(n == 2);
}

#[kani::proof]
#[kani::unwind(@@U@@)]
fn c12_out_of_range_is_none() {
    let buf: [u8; L] = kani::any();
    let b = any_input(&buf);
    let r = MessageView::new(Cow::Borrowed(b));
    kani::assume(r.is_ok());
    let msg = r.unwrap();
    let n = le32(b, 0) as usize;
    let idx: usize = kani::any();
    kani::assume(idx >= n);
    assert!(msg.get_value(idx).is_none());
    assert!(msg.get(idx).is_none());
    kani::cover!(n == 0 && idx == 0);
    kani::cover!(n == 1 && idx == 1);
    kani::cover!(n == 2 && idx == usize::MAX);
}

#[kani::proof]
#[kani::unwind(@@U@@)]
fn c12_find() {
    let buf: [u8; L] = kani::any();
    let b = any_input(&buf);
    let r = MessageView::new(Cow::Borrowed(b));
    kani::assume(r.is_ok());
    let msg = r.unwrap();
    let n = le32(b, 0) as usize;
    let t: u32 = kani::any();
    let found = msg.find(t);
    let ft = msg.find_tag(t);
    assert!(found.is_some() == ft.is_some());
    match ft {
        Some(i) => {
            assert!(i < n);
            assert!(le32(b, 4 * (n + i)) == t);
            let v = msg.get_value(i).unwrap();
            let f = found.unwrap();
            assert!(f.as_ptr() == v.as_ptr() && f.len() == v.len());
        }
        None => {
            let j: usize = kani::any();
            kani::assume(j < n);
            assert!(le32(b, 4 * (n + j)) != t);
        }
    }
    kani::cover!(n == 2 && ft == Some(1));
    kani::cover!(n == 2 && ft.is_none());
}


/// Acceptance only, on a wider window: every byte string of length <= LW = @@LW@@ (N up to LW/8 pairs), so
/// that header shapes with many pairs (N = 9, 10, ...) are inside the bound as well.
const LW: usize = @@LW@@;

#[kani::proof]
#[kani::unwind(@@UW@@)]
fn c12_new_accepts_exactly_wide() {
    let buf: [u8; LW] = kani::any();
    let len: usize = kani::any();
    kani::assume(len <= LW);
    let b = &buf[..len];
    let r = MessageView::new(Cow::Borrowed(b)); // must not panic
    assert!(r.is_ok() == format_allows(b));
    kani::cover!(r.is_ok() && le32(b, 0) as usize == LW / 8);
    kani::cover!(matches!(r, Err(DecodingError::NonMonotonicTags(_))) && le32(b, 0) >= 9);
    kani::cover!(matches!(r, Err(DecodingError::NonMonotonicOffsets(_))) && le32(b, 0) >= 10);
}


/// Acceptance only, ONE pair count: every header of exactly NE = @@NE@@ pairs (symbolic offsets and tags) in front
/// of a 4-byte payload.  The byte length is concrete, so the checks' loops unroll exactly; this reaches a pair count
/// beyond one 8-element block of tags at a small cost, whatever shape the monotonicity scan takes.
const NE: usize = @@NE@@;

#[kani::proof]
#[kani::unwind(@@UE@@)]
fn c12_new_accepts_exactly_fixed_n() {
    let mut buf: [u8; 8 * NE + 4] = kani::any();
    let c = (NE as u32).to_le_bytes();
    buf[0] = c[0];
    buf[1] = c[1];
    buf[2] = c[2];
    buf[3] = c[3];
    let b = &buf[..];
    let r = MessageView::new(Cow::Borrowed(b)); // must not panic
    assert!(r.is_ok() == format_allows(b));
    kani::cover!(r.is_ok());
    kani::cover!(matches!(r, Err(DecodingError::NonMonotonicTags(_))));
    kani::cover!(matches!(r, Err(DecodingError::NonMonotonicOffsets(_))));
    kani::cover!(matches!(r, Err(DecodingError::TruncatedPayload(_))));
}
