// Kani harnesses for MessageWrapper (C11).  Appended to rough_tlv/src/encoder.rs (scratch copy) as a
// child module.  BOUNDED: at most K = @@K@@ pairs, values of at most VL = @@VL@@ bytes (lengths for the
// i32::MAX rule: the full usize domain).  The sink is a recording ZeroCopySink: the encoder is generic
// in its sink, and OwningIovec / the HCOBS Encoder cannot be loaded into Kani (arena, measured).
use super::*;
use crate::MessageView;

const K: usize = @@K@@;
const VL: usize = @@VL@@;
const CAP: usize = 4 + 8 * K + K * VL + 8;

struct Rec {
    buf: [u8; CAP],
    len: usize,
    borrowed: usize,
    copied: usize,
}
impl Rec {
    fn new() -> Self {
        Rec { buf: [0; CAP], len: 0, borrowed: 0, copied: 0 }
    }
    fn put(&mut self, bytes: &[u8]) {
        let mut i = 0;
        while i < bytes.len() {
            assert!(self.len < CAP);
            self.buf[self.len] = bytes[i];
            self.len += 1;
            i += 1;
        }
    }
}
impl<'a> ZeroCopySink<'a> for Rec {
    fn append_copy(&mut self, bytes: &[u8]) {
        self.copied += 1;
        self.put(bytes)
    }
    fn append_borrow(&mut self, bytes: &'a [u8]) {
        self.borrowed += 1;
        self.put(bytes)
    }
}

fn le32(b: &[u8], at: usize) -> u32 {
    u32::from_le_bytes([b[at], b[at + 1], b[at + 2], b[at + 3]])
}

/// Reference: stable sort of indices 0..n by tag (insertion sort).
fn stable_order(tags: &[u32; K], n: usize) -> [usize; K] {
    let mut ord = [0usize; K];
    let mut i = 0;
    while i < n {
        ord[i] = i;
        i += 1;
    }
    let mut i = 1;
    while i < n {
        let mut j = i;
        while j > 0 && tags[ord[j - 1]] > tags[ord[j]] {
            let t = ord[j - 1];
            ord[j - 1] = ord[j];
            ord[j] = t;
            j -= 1;
        }
        i += 1;
    }
    ord
}

/// Checks the emitted bytes against the Roughtime layout for pairs (tags[i], vals[i][..lens[i]])
/// and that MessageView returns the same pairs in the same order.
fn check_layout(out: &[u8], tags: &[u32; K], vals: &[[u8; VL]; K], lens: &[usize; K], n: usize) {
    let ord = stable_order(tags, n);
    let header = if n == 0 { 4 } else { 8 * n };
    let mut total = 0;
    let mut i = 0;
    while i < n {
        total += lens[i];
        i += 1;
    }
    assert!(out.len() == header + total);
    assert!(le32(out, 0) as usize == n); // pair count
    // N-1 cumulative end offsets, N tags ascending (ties in insertion order), values concatenated
    let mut acc = 0usize;
    let mut r = 0;
    while r < n {
        let src = ord[r];
        assert!(le32(out, 4 * (n + r)) == tags[src]);
        let mut b = 0;
        while b < lens[src] {
            assert!(out[header + acc + b] == vals[src][b]);
            b += 1;
        }
        acc += lens[src];
        if r + 1 < n {
            assert!(le32(out, 4 * (r + 1)) as usize == acc);
        }
        r += 1;
    }
}

/// MessageView accepts the emitted bytes and returns the same pairs in the same order through
/// iteration, indexing and tag lookup.
fn check_roundtrip(out: &[u8], tags: &[u32; K], vals: &[[u8; VL]; K], lens: &[usize; K], n: usize) {
    let ord = stable_order(tags, n);
    let view = MessageView::new(std::borrow::Cow::Borrowed(out));
    assert!(view.is_ok());
    let view = view.unwrap();
    assert!(view.len() == n);
    let mut r = 0;
    for (tag, value) in view.iter() {
        assert!(r < n);
        let src = ord[r];
        assert!(tag.value() == tags[src]);
        assert!(value.len() == lens[src]);
        let mut b = 0;
        while b < lens[src] {
            assert!(value[b] == vals[src][b]);
            b += 1;
        }
        let g = view.get(r).unwrap();
        assert!(g.0 == tag && g.1.len() == value.len() && g.1.as_ptr() == value.as_ptr());
        r += 1;
    }
    assert!(r == n);
    // tag lookup returns a value stored under exactly that tag
    if n > 0 {
        let probe: usize = kani::any();
        kani::assume(probe < n);
        let found = view.find(tags[probe]);
        assert!(found.is_some());
        let idx = view.find_tag(tags[probe]).unwrap();
        assert!(le32(out, 4 * (n + idx)) == tags[probe]);
    }
}

/// The pair count is enumerated by concrete loops in every harness (Vec lengths stay concrete for
/// CBMC: `sort_by_key` and the Vec internals do not finish on a symbolic length); tags, value bytes and
/// value lengths are symbolic.
fn any_input(n: usize) -> ([u32; K], [[u8; VL]; K], [usize; K], usize) {
    let tags: [u32; K] = kani::any();
    let vals: [[u8; VL]; K] = kani::any();
    let lens: [usize; K] = kani::any();
    let mut i = 0;
    while i < K {
        kani::assume(lens[i] <= VL);
        i += 1;
    }
    (tags, vals, lens, n)
}

/// MessageWrapper::new (unsorted input, borrowed slices): layout, emitted == rough_tlv_len, round trip.
#[kani::proof]
#[kani::unwind(@@U11@@)]
fn c11_new_layout() {
    let mut n = 0;
    while n <= K {
        new_layout(n, false);
        n += 1;
    }
}

#[kani::proof]
#[kani::unwind(@@U11@@)]
fn c11_new_roundtrip() {
    let mut n = 0;
    while n <= @@KR@@ {
        new_layout(n, true);
        n += 1;
    }
}

fn new_layout(n: usize, roundtrip: bool) {
    let (tags, vals, lens, n) = any_input(n);
    let mut elements: Vec<(Tag, &[u8])> = Vec::new();
    let mut i = 0;
    while i < n {
        elements.push((Tag::new_from_u32(tags[i]), &vals[i][..lens[i]]));
        i += 1;
    }
    let w = MessageWrapper::new(elements);
    assert!(w.is_ok()); // small lists are never rejected
    let w = w.unwrap();
    let mut sink = Rec::new();
    w.to_rough_tlv(&mut sink);
    assert!(sink.len == w.rough_tlv_len());
    if roundtrip {
        check_roundtrip(&sink.buf[..sink.len], &tags, &vals, &lens, n);
    } else {
        check_layout(&sink.buf[..sink.len], &tags, &vals, &lens, n);
    }
    kani::cover!(n == K && tags[0] > tags[1]);
    kani::cover!(n == K && tags[0] == tags[1] && lens[0] != lens[1]);
    kani::cover!(n == 0);
    kani::cover!(n >= 2 && lens[0] == 0 && lens[1] > 0);
}

/// Cow values (Borrowed -> append_borrow, Owned -> append_copy), via new_from_slice.
#[kani::proof]
#[kani::unwind(@@U11@@)]
fn c11_cow_values() {
    let mut n = 0;
    while n <= @@KC@@ {
        cow_values(n);
        n += 1;
    }
}

fn cow_values(n: usize) {
    let (tags, vals, lens, n) = any_input(n);
    let owned: [bool; K] = kani::any();
    // a fixed-size array of pairs (no Vec of Cows): only the first n entries are handed to the wrapper
    let mut n_owned = 0;
    let mut i = 0;
    while i < n {
        if owned[i] {
            n_owned += 1;
        }
        i += 1;
    }
    let mk = |i: usize| -> (Tag, Cow<[u8]>) {
        let v: Cow<[u8]> = if owned[i] { Cow::Owned(vals[i][..lens[i]].to_vec()) } else { Cow::Borrowed(&vals[i][..lens[i]]) };
        (Tag::new_from_u32(tags[i]), v)
    };
    let mut elements: [(Tag, Cow<[u8]>); K] = std::array::from_fn(mk);
    let w = MessageWrapper::new_from_slice(&mut elements[..n]).unwrap();
    let mut sink = Rec::new();
    w.to_rough_tlv(&mut sink);
    assert!(sink.len == w.rough_tlv_len());
    assert!(sink.borrowed == n - n_owned);
    check_layout(&sink.buf[..sink.len], &tags, &vals, &lens, n);
    kani::cover!(n == @@KC@@ && n_owned == 1);
}

/// new_from_sorted rejects exactly the lists whose tags decrease somewhere; accepted lists encode
/// in the given order.
#[kani::proof]
#[kani::unwind(@@U11@@)]
fn c11_new_from_sorted() {
    let mut n = 0;
    while n <= K {
        new_from_sorted(n);
        n += 1;
    }
}

fn new_from_sorted(n: usize) {
    let (tags, vals, lens, n) = any_input(n);
    let mut elements: Vec<(Tag, &[u8])> = Vec::new();
    let mut i = 0;
    while i < n {
        elements.push((Tag::new_from_u32(tags[i]), &vals[i][..lens[i]]));
        i += 1;
    }
    let mut decreases = false;
    let mut i = 0;
    while i + 1 < n {
        if tags[i] > tags[i + 1] {
            decreases = true;
        }
        i += 1;
    }
    let w = MessageWrapper::new_from_sorted(&elements[..]);
    assert!(w.is_err() == decreases);
    if let Ok(w) = w {
        let mut sink = Rec::new();
        w.to_rough_tlv(&mut sink);
        assert!(sink.len == w.rough_tlv_len());
        check_layout(&sink.buf[..sink.len], &tags, &vals, &lens, n);
    }
    kani::cover!(decreases);
    kani::cover!(!decreases && n == K);
}

// (A value that is itself a message: CBMC runs out of memory even with one-byte values; checked natively, kn/rough_tlv_encoder.rs.)

/// The i32::MAX rule over the FULL usize domain of value lengths: a harness-local value type whose
/// encoded length is symbolic.
struct SymLen(usize);
impl<'a> ToRoughTLV<'a> for SymLen {
    fn to_rough_tlv<'dst, Sink>(&self, _sink: &mut Sink)
    where
        'a: 'dst,
        Sink: ZeroCopySink<'dst> + ?Sized,
    {
    }
    fn rough_tlv_len(&self) -> usize {
        self.0
    }
}

#[kani::proof]
#[kani::unwind(@@U11@@)]
fn c11_length_limits_full_domain() {
    let mut n = 0;
    while n <= K {
        length_limits(n);
        n += 1;
    }
}

fn length_limits(n: usize) {
    let lens: [usize; K] = kani::any();
    let mut elements: Vec<(Tag, SymLen)> = Vec::new();
    let mut i = 0;
    while i < n {
        elements.push((Tag::new_from_u32(i as u32), SymLen(lens[i])));
        i += 1;
    }
    // reference, in u128 (no saturation, no wrap)
    let mut too_big_value = false;
    let mut total: u128 = if n == 0 { 4 } else { 8 * n as u128 };
    let mut i = 0;
    while i < n {
        if lens[i] > i32::MAX as usize {
            too_big_value = true;
        }
        total += lens[i] as u128;
        i += 1;
    }
    let expect_err = too_big_value || total > i32::MAX as u128;
    let r = MessageWrapper::<SymLen>::compute_len(&elements[..]);
    assert!(r.is_err() == expect_err);
    if let Ok(l) = r {
        assert!(l as u128 == total);
    }
    let w = MessageWrapper::new(elements);
    assert!(w.is_err() == expect_err);
    kani::cover!(too_big_value);
    kani::cover!(!too_big_value && total > i32::MAX as u128);
    kani::cover!(!expect_err && total == i32::MAX as u128);
    kani::cover!(n == K && K >= 2 && lens[0] == usize::MAX && lens[K - 1] == usize::MAX);
}


