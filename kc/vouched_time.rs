// Kani harnesses for the vouched_time crate.  Appended to vouched_time/src/lib.rs
// (scratch copy) as `#[cfg(kani)] mod verif_kani { ... }`.
use super::*;

/// The window of C14, transcribed from the property statement, in i128 so that it cannot wrap:
/// local time not before the epoch (and representable as the crate's u64 millisecond count),
/// and -59900 <= local - base <= +2990.
pub(crate) fn window_ok(local_ms: i128, base_ms: u64) -> bool {
    if local_ms < 0 || local_ms > u64::MAX as i128 {
        return false;
    }
    let diff: i128 = local_ms - (base_ms as i128); // both in [0, 2^64): no overflow in i128
    diff >= -59_900 && diff <= 2_990
}

fn any_voucher() -> raffle::Voucher {
    let bits: u64 = kani::any();
    // Voucher is #[repr(transparent)] over u64 (the crate itself relies on this, see
    // atomic_base_time.rs TransmuteVoucher); every bit pattern is a valid Voucher.
    unsafe { std::mem::transmute::<u64, raffle::Voucher>(bits) }
}

fn any_datetime() -> time::PrimitiveDateTime {
    let year: i32 = kani::any();
    let ordinal: u16 = kani::any();
    let date = time::Date::from_ordinal_date(year, ordinal);
    kani::assume(date.is_ok());
    let h: u8 = kani::any();
    let m: u8 = kani::any();
    let s: u8 = kani::any();
    let ns: u32 = kani::any();
    let t = time::Time::from_hms_nano(h, m, s, ns);
    kani::assume(t.is_ok());
    time::PrimitiveDateTime::new(date.unwrap(), t.unwrap())
}

/// C14 / window: Hoare triple on the real `check_vouched_time` for every (i128, u64) input:
///     ensures ret.is_ok() <=> window_ok(local_time_ms, base_time_ms); never panics, never overflows.
/// Loop-free and full-domain => a complete proof, not a bounded stand-in.
/// (Stated as a plain harness rather than kani::ensures + proof_for_contract: measured here, the
/// contract form of the same triple is 60x slower and Kani's concrete playback produces no
/// counterexample for contract failures.)
#[kani::proof]
fn c14_window_full_domain() {
    let local: i128 = kani::any();
    let base: u64 = kani::any();
    let r = VouchedTime::check_vouched_time(local, base);
    assert!(r.is_ok() == window_ok(local, base));
    // reachability (vacuity guard): both verdicts, both window edges
    kani::cover!(r.is_ok() && local == base as i128 + 2_990);
    kani::cover!(r.is_ok() && local == base as i128 - 59_900);
    kani::cover!(r.is_err() && local >= 0 && local <= u64::MAX as i128);
    kani::cover!(r.is_err() && local < 0);
    kani::cover!(r.is_err() && local > u64::MAX as i128);
}

// --- composition -------------------------------------------------------------------------
// `raffle::CheckingParameters::check` is a dependency.  In the composition harness it is replaced
// by an oracle stub: it asserts that it is called with exactly the (base, voucher) the caller
// passed and with the crate's BASE_TIME_CHECK parameters, and returns a fixed but arbitrary
// verdict.  So the harness proves, for every base time, every voucher bit pattern and either
// verdict, that new/check = verdict /\ window -- without bit-blasting raffle's 64-bit
// multiplication (the assumed contract is "check is a deterministic function of its arguments").
static mut ORACLE_VERDICT: bool = false;
static mut ORACLE_BASE: u64 = 0;
static mut ORACLE_VOUCHER: u64 = 0;
static mut ORACLE_CALLS: u32 = 0;

fn check_stub(p: raffle::CheckingParameters, value: u64, voucher: raffle::Voucher) -> bool {
    unsafe {
        let bits = std::mem::transmute::<raffle::Voucher, u64>(voucher);
        assert!(p == BASE_TIME_CHECK);
        assert!(value == ORACLE_BASE && bits == ORACLE_VOUCHER);
        ORACLE_CALLS += 1;
        ORACLE_VERDICT
    }
}

/// The local times of the composition harness: calendar limits, the epoch and its neighbours,
/// sub-millisecond parts on both sides of the epoch, and the test suite's date.
fn some_datetime() -> time::PrimitiveDateTime {
    use time::{Date, Month, PrimitiveDateTime, Time};
    let sel: u8 = kani::any();
    let d = |y, m, d| Date::from_calendar_date(y, m, d).unwrap();
    let t = |h, m, s, n| Time::from_hms_nano(h, m, s, n).unwrap();
    match sel {
        0 => PrimitiveDateTime::new(d(1970, Month::January, 1), t(0, 0, 0, 0)),
        1 => PrimitiveDateTime::new(d(1969, Month::December, 31), t(23, 59, 59, 999_999_999)),
        2 => PrimitiveDateTime::new(d(1970, Month::January, 1), t(0, 0, 59, 900_999_999)),
        3 => PrimitiveDateTime::new(d(1970, Month::January, 1), t(0, 0, 2, 990_000_001)),
        4 => PrimitiveDateTime::MIN,
        5 => PrimitiveDateTime::MAX,
        6 => PrimitiveDateTime::new(d(2024, Month::April, 13), t(17, 1, 1, 990_000_000)),
        _ => PrimitiveDateTime::new(d(2024, Month::April, 13), t(16, 59, 59, 99_999_999)),
    }
}

/// C14 / composition (bit-precise cross-check of the Verus contract of `check`, with the real `time`
/// crate doing the conversion): `VouchedTime::check` succeeds exactly when the voucher check passes
/// and the local time, in milliseconds since the epoch, is in the window; it never panics.
/// Complete over (base time, voucher bits, verdict); local time over the 8 datetimes above.
#[kani::proof]
#[kani::stub(raffle::CheckingParameters::check, check_stub)]
fn c14_check_composition() {
    let local = some_datetime();
    let base: u64 = kani::any();
    let vbits: u64 = kani::any();
    let vouches: bool = kani::any();
    unsafe {
        ORACLE_VERDICT = vouches;
        ORACLE_BASE = base;
        ORACLE_VOUCHER = vbits;
    }
    let voucher = unsafe { std::mem::transmute::<u64, raffle::Voucher>(vbits) };
    // the rule from the property statement: not before the epoch at the clock's own resolution, and the
    // millisecond the instant falls in (floor) inside the window
    let nanos: i128 = local.assume_utc().unix_timestamp_nanos();
    let local_ms: i128 = nanos.div_euclid(1_000_000);
    let expect = vouches && nanos >= 0 && window_ok(local_ms, base);
    let c = VouchedTime::check(local, base, voucher);
    assert!(c.is_ok() == expect);
    assert!(unsafe { ORACLE_CALLS } >= 1);
    // `new`, `get_local_time`, `check_or_die`, `now` are composed from `check` in the Verus unit
    // (vx/vouched_time): under Kani their io::Error / expect paths do not finish (measured > 10 min
    // even with every input concrete).
    kani::cover!(expect);
    kani::cover!(!vouches);
    kani::cover!(vouches && !expect);
}

/// C14 / parameters: with the real raffle code (no stub), a voucher made for the base time under
/// the crate's vouching parameters is accepted, a voucher for another value or from other
/// parameters is rejected.  Concrete values: this pins BASE_TIME_CHECK itself.
#[kani::proof]
fn c14_real_voucher_pins_parameters() {
    let good = raffle::VouchingParameters::parse_or_die(
        "VOUCH-773ec2a0e62c20cd-f9e079b78e895091-fc1da7b1b77c57cb-594b9cce3091464a",
    );
    let other = raffle::VouchingParameters::parse_or_die(
        "VOUCH-d165ec246b320939-2067990c3fc0f62d-309ee23efd609c4b-45b19da4a316ca0e",
    );
    let local = time::PrimitiveDateTime::new(
        time::Date::from_calendar_date(2024, time::Month::April, 13).unwrap(),
        time::Time::from_hms(17, 0, 59).unwrap(),
    );
    let base = 1713027659000u64;
    assert!(VouchedTime::check(local, base, good.vouch(base)).is_ok());
    assert!(VouchedTime::check(local, base, good.vouch(base + 1)).is_err());
    assert!(VouchedTime::check(local, base + 1, good.vouch(base)).is_err());
    assert!(VouchedTime::check(local, base, other.vouch(base)).is_err());
}
