"""A small Rust-aware scanner: enough lexing (strings, raw strings, chars vs
lifetimes, line/block comments, nested brackets) to cut named items out of a
source file *verbatim*.  It never rewrites anything; see normalise.py for the
(declared) rewrites.
"""
import re


class LexError(Exception):
    pass


def mask(src):
    """Return a string of the same length as src where the contents of comments,
    string literals and char literals are replaced by spaces (newlines kept), so
    that bracket matching and regex searches see code only."""
    out = list(src)
    i, n = 0, len(src)

    def blank(a, b):
        for k in range(a, b):
            if out[k] != "\n":
                out[k] = " "

    while i < n:
        c = src[i]
        if c == "/" and i + 1 < n and src[i + 1] == "/":
            j = src.find("\n", i)
            j = n if j < 0 else j
            blank(i, j)
            i = j
        elif c == "/" and i + 1 < n and src[i + 1] == "*":
            depth, j = 1, i + 2
            while j < n and depth:
                if src.startswith("/*", j):
                    depth += 1
                    j += 2
                elif src.startswith("*/", j):
                    depth -= 1
                    j += 2
                else:
                    j += 1
            blank(i, j)
            i = j
        elif c == '"' or (c in "br" and re.match(r'b?r?#*"', src[i:i + 8]) and (i == 0 or not (src[i - 1].isalnum() or src[i - 1] == "_"))):
            m = re.match(r'(b?)(r?)(#*)"', src[i:i + 8])
            if not m:
                i += 1
                continue
            raw, hashes = m.group(2), m.group(3)
            j = i + m.end()
            if raw:
                end = src.find('"' + hashes, j)
                if end < 0:
                    raise LexError("unterminated raw string")
                blank(i + m.end(), end)
                i = end + 1 + len(hashes)
            else:
                while j < n and src[j] != '"':
                    j += 2 if src[j] == "\\" else 1
                blank(i + m.end(), j)
                i = j + 1
        elif c == "'":
            # char literal or lifetime
            m = re.match(r"'(\\.[^']*|[^'\\])'", src[i:i + 12])
            if m:
                blank(i + 1, i + m.end() - 1)
                i += m.end()
            else:
                i += 1
        else:
            i += 1
    return "".join(out)


_OPEN = "([{"
_CLOSE = ")]}"


def match_bracket(masked, i):
    """masked[i] is an opening bracket; return index of its match."""
    depth = 0
    for j in range(i, len(masked)):
        ch = masked[j]
        if ch in _OPEN:
            depth += 1
        elif ch in _CLOSE:
            depth -= 1
            if depth == 0:
                return j
    raise LexError("unbalanced bracket at %d" % i)


class Item:
    def __init__(self, kind, name, header, start, body_open, end, attrs_start):
        self.kind = kind            # fn | struct | enum | impl | const | trait | mod | ...
        self.name = name
        self.header = header        # text from item start (after attrs) to the opening brace/;  (one line, squeezed)
        self.start = start          # offset of the first token of the item proper (after attributes/docs)
        self.body_open = body_open  # offset of '{' (or None)
        self.end = end              # offset one past the closing '}' or ';'
        self.attrs_start = attrs_start  # offset where leading attributes / doc comments start

    def __repr__(self):
        return "<Item %s %s>" % (self.kind, self.name)


_ITEM_RE = re.compile(
    r"(?:pub(?:\([^)]*\))?\s+)?(?:default\s+)?(?:const\s+(?=fn|unsafe))?(?:async\s+)?(?:unsafe\s+)?(?:extern\s+\"[^\"]*\"\s+)?"
    r"(fn|struct|enum|union|impl|trait|mod|const|static|type|use|macro_rules!)\b")


def items(src, lo=0, hi=None):
    """Scan src[lo:hi] (the inside of a file or of an impl/mod body) and return its items."""
    masked = mask(src)
    hi = len(src) if hi is None else hi
    res = []
    i = lo
    while i < hi:
        # skip whitespace
        m = re.compile(r"\s*").match(masked, i, hi)
        i = m.end()
        if i >= hi:
            break
        attrs_start = i
        # attributes (comments are blanks in `masked`, so they are skipped as whitespace)
        while masked.startswith("#", i):
            j = masked.find("[", i)
            k = match_bracket(masked, j)
            i = re.compile(r"\s*").match(masked, k + 1, hi).end()
        # doc comments directly above are whitespace in masked; find the true start
        real_attrs_start = attrs_start
        m = _ITEM_RE.match(masked, i, hi)
        if not m:
            # unknown token sequence: skip to next ';' or balanced '{...}'
            j = i
            while j < hi and masked[j] not in ";{":
                if masked[j] in "([":
                    j = match_bracket(masked, j)
                j += 1
            if j < hi and masked[j] == "{":
                j = match_bracket(masked, j)
            i = j + 1
            continue
        kind = m.group(1)
        # find end: first ';' or '{' at bracket depth 0 (skipping (...) [...] <...> is not needed for ; {)
        j = m.end()
        body_open = None
        while j < hi:
            ch = masked[j]
            if ch in "([":
                j = match_bracket(masked, j) + 1
                continue
            if ch == ";":
                end = j + 1
                break
            if ch == "{":
                body_open = j
                end = match_bracket(masked, j) + 1
                # `struct X {..}` ends at }, as do fn/impl/enum/trait/mod; `const X: T = T {..};` continues to ';'
                if kind in ("const", "static", "type", "use"):
                    j = end
                    continue
                break
            j += 1
        else:
            raise LexError("item without end at %d" % i)
        header = " ".join(src[i:(body_open if body_open is not None and kind not in ("const", "static") else end)].split())
        name = _item_name(kind, header)
        res.append(Item(kind, name, header, i, body_open if kind not in ("const", "static") else None, end,
                        real_attrs_start))
        i = end
    return res


def _item_name(kind, header):
    if kind == "impl":
        h = re.sub(r"^impl\s*(<[^{]*?>)?\s*", "impl ", header) if False else header
        return header  # full header is the key for impls
    m = re.search(r"\b%s\s+([A-Za-z_][A-Za-z0-9_]*)" % re.escape(kind.rstrip("!")), header)
    return m.group(1) if m else header


def find_item(src, path):
    """path: list of selectors, each either 'kind name' (e.g. 'fn consume_once', 'struct EncoderState')
    or, for impls, a regex matched against the squeezed impl header, written 'impl /regex/' and optionally
    followed by '#k' to pick the k-th match (0-based).  Returns (Item, lo, hi) of the innermost."""
    lo, hi = 0, None
    it = None
    for sel in path:
        cands = items(src, lo, hi)
        it = None
        m = re.match(r"impl /(.*)/(?:#(\d+))?$", sel)
        if m:
            rx, k = re.compile(m.group(1)), int(m.group(2) or 0)
            hits = [c for c in cands if c.kind == "impl" and rx.search(c.header)]
            if len(hits) > k:
                it = hits[k]
        else:
            kind, name = sel.split(None, 1)
            hits = [c for c in cands if c.kind == kind and c.name == name]
            if hits:
                it = hits[0]
        if it is None:
            raise KeyError("item not found: %s (in %s)" % (sel, path))
        if it.body_open is not None:
            lo, hi = it.body_open + 1, it.end - 1
    return it


def item_text(src, it, with_attrs=False):
    return src[(it.attrs_start if with_attrs else it.start):it.end]


def leading_attrs(src, it):
    return src[it.attrs_start:it.start]
