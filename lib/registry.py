"""Which units / harnesses / overlays decide which property."""
import os

from common import VERIF
from kani_engine import Harness, Injection, KaniUnit

KC = os.path.join(VERIF, "kc")

FC = ["-Z", "function-contracts"]

VOUCHED_TIME = KaniUnit(
    crate="vouched_time",
    attachments=[("vouched_time/src/lib.rs", os.path.join(KC, "vouched_time.rs"), "")],
    kani_args=["-Z", "stubbing"],
    harnesses=[
        Harness("c14_window_full_domain", ["C14"], "VouchedTime::check_vouched_time",
                "ensures ret.is_ok() <=> 0 <= local <= u64::MAX /\\ -59900 <= local - base <= 2990 "
                "(difference in i128, no wrap), for all (i128, u64); no panic/overflow",
                kind="proof", covers=5, timeout=600),
        Harness("c14_check_composition", ["C14"], "VouchedTime::check",
                "bit-precise cross-check with the real `time` conversion: check is Ok <=> voucher check passes (called "
                "with exactly (base, voucher) under BASE_TIME_CHECK) /\\ window(ms(local), base); no panic; for all base "
                "times, voucher bits and verdicts; local over 8 listed datetimes (epoch, calendar limits, sub-ms "
                "truncation)", kind="bounded", bound="local time over 8 listed datetimes; base, voucher, verdict complete",
                covers=3, timeout=900),
        Harness("c14_real_voucher_pins_parameters", ["C14"], "VouchedTime::check",
                "with the real raffle code: a voucher for the base under the crate's parameters is accepted; one for "
                "another value, another base, or other parameters is rejected", kind="proof", timeout=600),
    ],
)



def _c15_harnesses():
    ops = [
        ("push_back", "SlidingDeque::push_back", "view' = view ++ [x]; back() = x", 2),
        ("pop_front", "SlidingDeque::pop_front", "returns view[0] (None on empty); view' = view[1..]", 4),
        ("pop_back", "SlidingDeque::pop_back", "returns view[last] (None on empty); view' = view[..last]", 3),
        ("advance", "SlidingDeque::advance", "for count in {{0..N+1}} u {{2^63, usize::MAX-1, usize::MAX}}: returns min(count, len); view' = view[ret..]", 3),
        ("clear", "SlidingDeque::clear", "view' = []", 0),
        ("slide", "SlidingDeque::slide", "view' = view; consumed prefix = 0", 1),
        ("views", "SlidingDeque::{front,back,front_mut,back_mut,deref,deref_mut,len,is_empty}",
         "views equal the reference; a write through front_mut/back_mut/deref_mut changes exactly that element", 3),
        ("new_from", "SlidingDeque::{new,from}", "fresh deques satisfy rep_ok and expose the container's items", 0),
    ]
    hs = []
    for backing, label in (("vec", "Vec<u8>"), ("small", "SmallVec<[u8;2]>")):
        for op, owner, post, covers in ops:
            hs.append(Harness(
                "c15_%s_%s" % (backing, op), ["C15"], owner,
                "[%s] requires rep_ok; ensures rep_ok (consumed <= len/2, empty => consumed = 0, debug check_rep "
                "asserts pass, no panic) /\\ %s" % (label, post),
                kind="bounded", bound="backing container length <= {N}: every (length, consumed prefix) pair enumerated, "
                "contents symbolic; inductive per operation => all histories within that size",
                covers=covers, timeout=900, mod="sliding_deque"))
    return hs


SLIDING_DEQUE = KaniUnit(
    crate="sliding_deque",
    attachments=[("sliding_deque/src/sliding_deque.rs", os.path.join(KC, "sliding_deque.rs"), "sliding_deque")],
    params={"quick": {"N": 5, "U": 12}, "thorough": {"N": 7, "U": 14}},
    harnesses=_c15_harnesses(),
)

_C12_BOUND = "every byte string of length <= {L} (N = 0..{L}/8 accepted shapes; every larger N, up to 2^32-1, rejected)"
ROUGH_TLV = KaniUnit(
    crate="rough_tlv",
    attachments=[("rough_tlv/src/decoder.rs", os.path.join(KC, "rough_tlv_decoder.rs"), "decoder")],
    params={"quick": {"L": 16, "U": 6}, "thorough": {"L": 24, "U": 7}},
    harnesses=[
        Harness("c12_new_accepts_exactly", ["C12"], "MessageView::new",
                "never panics; Ok <=> >= 4 bytes /\\ 8N <= len /\\ offsets non-decreasing /\\ tags non-decreasing "
                "/\\ last offset inside the payload", kind="bounded", bound=_C12_BOUND, covers=7, mod="decoder"),
        Harness("c12_values_tile", ["C12"], "MessageView::get_value",
                "on every accepted message, for every i < N: get_value(i) is the sub-slice [8N+start_i, 8N+end_i) "
                "(pointer identity), start_0 = 0, start_{i+1} = end_i, end_{N-1} = len: the values tile the bytes "
                "after the header", kind="bounded", bound=_C12_BOUND, covers=2, mod="decoder",
                functions=["MessageView::get_value", "MessageView::len", "MessageView::is_empty", "MessageView::offsets"]),
        Harness("c12_accessors_agree", ["C12"], "MessageView::{iter,get,tags}",
                "iter() yields exactly N pairs; pair k has tag = tags()[k] = header word N+k and value identical "
                "(pointer, length) to get(k) and get_value(k); no accessor panics", kind="bounded",
                bound=_C12_BOUND, covers=1, mod="decoder"),
        Harness("c12_out_of_range_is_none", ["C12"], "MessageView::{get_value,get}",
                "for every usize index >= N (so every index of an empty message): get_value and get return None",
                kind="bounded", bound=_C12_BOUND, covers=3, mod="decoder"),
        Harness("c12_find", ["C12"], "MessageView::{find,find_tag}",
                "for every u32 tag: find returns the value stored under exactly that tag, or None iff no header tag "
                "equals it", kind="bounded", bound=_C12_BOUND, covers=2, mod="decoder"),
    ],
)

KANI_UNITS = {u.crate: u for u in [VOUCHED_TIME, SLIDING_DEQUE, ROUGH_TLV]}

import units_hcobs
import units_vouched_time
VERUS_UNITS = {"hcobs": units_hcobs.HCOBS, "vouched_time": units_vouched_time.VOUCHED_TIME_VX}

# property -> description of how it is decided
PROPERTIES = {
    "C14": {
        "level": "proof",
        "kani_units": ["vouched_time"],
        "verus_units": ["vouched_time"],
        "assumptions": [
            "ASSUMED (dependencies, vx/vouched_time/standins.rs): raffle::CheckingParameters::check is a deterministic "
            "predicate `vouches`; time::PrimitiveDateTime::assume_utc / OffsetDateTime::unix_timestamp_nanos return the "
            "value's UTC nanoseconds since the epoch; OffsetDateTime::now_utc returns an arbitrary value; "
            "std::io::Error::other builds an error value (N9 alias io_error_other)",
            "representation invariant `valid` of VouchedTime: fields are private and every constructor (new, new_or_die, "
            "now, now_or_die) ensures it; get_local_time / check_or_die require it (Clone/Copy preserve it)",
            "Kani cross-checks run the real `time` and `raffle` code; Voucher is repr(transparent) over u64",
            "now_or_die = now(..).expect(..): panics by design when now fails; not under contract",
        ],
    },
}

PROPERTIES["C15"] = {
    "level": "model_checking",
    "kani_units": ["sliding_deque"],
    "verus_units": [],
    "assumptions": [
        "bounded: backing container length <= N (5 quick / 7 thorough); element type u8; backings Vec<u8> and "
        "SmallVec<[u8;2]> (inline->heap transition at 2 is inside the bound)",
        "induction over operations is a meta-argument (each operation proved from an arbitrary rep_ok state)",
        "Vec / SmallVec are executed as real code by Kani (no assumed contracts)",
    ],
}

PROPERTIES["C12"] = {
    "level": "model_checking",
    "kani_units": ["rough_tlv"],
    "verus_units": [],
    "assumptions": [
        "bounded: all byte strings of length <= 16 (quick) / 24 (thorough); complete below the bound "
        "(unwinding assertions on)",
        "the unsafe slice_as_tags cast runs under CBMC's pointer checks (no assumed contract)",
        "Cow::Borrowed input only (Cow::Owned differs only in who frees the buffer)",
    ],
}

_HCOBS_ASSUMED = [
    "ASSUMED (not proved here; producer-side content of C03/C04): OwningIovec::{new,push,push_copy,register_patch,"
    "backfill_or_panic,push_anchor} contracts over the ghost view (bytes, pending) -- vx/hcobs/assumed_iovec.rs",
    "ASSUMED: find_stuff_sequence returns the first FE FD index or None (its body uses windows().enumerate(), outside "
    "Verus's dialect); checked only by a BOUNDED Kani harness (all slices of length <= 12)",
    "ASSUMED: AnchoredSlice::components yields exactly the anchored bytes (unsafe in the real crate; memory validity is C05)",
    "ASSUMED: Backref::len == registered pattern length; Backref: Default; std::mem::swap per vstd's specification",
    "consumer-side operations (drains) do not change the ghost view (bytes, pending): the logical stream since "
    "creation; that drained bytes equal a prefix of it is C03, assumed",
    "C09's slice-granularity slack ('one arena chunk') lives inside OwningIovec::stable_prefix and is assumed, not proved",
    "Verus N-rules (see coverage.n_rules_applied) are syntactic and trusted; the lexer/extractor is trusted",
]
for _pid in ("C01", "C02", "C07", "C09"):
    PROPERTIES[_pid] = {
        "level": "proof",
        "kani_units": [],
        "verus_units": ["hcobs"],
        "assumptions": list(_HCOBS_ASSUMED),
    }

TRUSTED_BASE = [
    "Verus 0.2026.09.13 / Z3 (machine integers checked for overflow on every exec operation; termination by decreases)",
    "the spec functions enc / dstep / drun in /verif/vx/hcobs (transcriptions of the format)",
    "Kani 0.68 / CBMC 6.11 / CaDiCaL (bit-precise; machine arithmetic not idealised)",
    "rustc (Kani's pinned nightly) MIR semantics",
    "the harness oracles in /verif/kc/*.rs (transcriptions of the property statements)",
]
