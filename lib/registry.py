"""Which units / harnesses / overlays decide which property."""
import os

from common import VERIF
from kani_engine import Harness, Injection, KaniUnit

KC = os.path.join(VERIF, "kc")

FC = ["-Z", "function-contracts"]

VOUCHED_TIME = KaniUnit(
    crate="vouched_time",
    attachments=[("vouched_time/src/lib.rs", os.path.join(KC, "vouched_time.rs"), ""),
                 ("vouched_time/src/atomic_base_time.rs", os.path.join(KC, "atomic_base_time.rs"), "atomic_base_time"),
                 ("vouched_time/src/nfs_voucher.rs", os.path.join(KC, "nfs_voucher.rs"), "nfs_voucher")],
    kani_args=["-Z", "stubbing"],
    params={"quick": {"W": 4, "UW": 7}, "thorough": {"W": 6, "UW": 9}},
    harnesses=[
        Harness("c14_window_full_domain", ["C14"], "VouchedTime::check_vouched_time",
                "ensures ret.is_ok() <=> 0 <= local <= u64::MAX /\\ -59900 <= local - base <= 2990 "
                "(difference in i128, no wrap), for all (i128, u64); no panic/overflow",
                kind="proof", covers=5, timeout=600),
        Harness("c14_check_composition", ["C14"], "VouchedTime::check",
                "bit-precise cross-check with the real `time` conversion: check is Ok <=> voucher check passes (called "
                "with exactly (base, voucher) under BASE_TIME_CHECK) /\\ window(ms(local), base); no panic; for all base "
                "times, voucher bits and verdicts; local over 8 listed datetimes (epoch, calendar limits, sub-ms "
                "truncation)", kind="bounded", bound="local time over 8 listed datetimes; base, voucher, verdict complete",
                covers=3, timeout=900),
        Harness("c18_snapshot_with_writer_suspended_holding_lock", ["C18"], "AtomicBaseTime::snapshot",
                "from every state a suspended writer can leave (any sequence, stable slot vouched, other slot arbitrary bits) with "
                "the writer lock HELD forever: completes in one pass of its loop (unwinding assertion), returns the published "
                "pair, never panics, never touches the lock", kind="proof", timeout=900, mod="atomic_base_time", unwind_is_property_in="AtomicBaseTime::snapshot"),
        Harness("c18_snapshot_lock_free", ["C18"], "AtomicBaseTime::snapshot",
                "same, with no writer inside the critical section", kind="proof", timeout=900, mod="atomic_base_time", unwind_is_property_in="AtomicBaseTime::snapshot"),
        Harness("c18_try_update_with_lock_held", ["C18"], "AtomicBaseTime::try_update",
                "another writer holds the lock forever: returns false without waiting; sequence unchanged", kind="proof",
                timeout=900, mod="atomic_base_time"),
        Harness("c18_try_update_lock_free", ["C18"], "AtomicBaseTime::try_update",
                "lock free: applies the update iff not older than the current base time, advances the sequence by one, "
                "releases the lock; the next snapshot returns the newest pair", kind="proof", covers=2, timeout=900,
                mod="atomic_base_time", unwind_is_property_in="AtomicBaseTime::snapshot"),
        Harness("c18_snapshot_under_interfering_writes", ["C18"], "AtomicBaseTime::snapshot",
                "every atomic load of the reader is a preemption point at which up to W complete writes (real advance_once, lock "
                "held by a writer that never releases it) may land: snapshot still returns a published pair, never panics, and "
                "never reaches the blocking Mutex::lock (stubbed to fail)", kind="bounded",
                bound="at most {W} interfering writes per snapshot call", covers=2, timeout=1500, mod="atomic_base_time", unwind_is_property_in="AtomicBaseTime::snapshot"),
        Harness("c18_snapshot_with_real_writer_cut_off_at_every_store", ["C18"], "AtomicBaseTime::{advance_once,snapshot}",
                "the REAL writer (advance_once) run from any quiescent state and cut off before its (k+1)-th atomic store, k = 0..3, "
                "holding the lock for good: a lone snapshot() completes in one pass, never panics, never touches the lock, and returns a "
                "pair that was published as a unit -- the old one, or the new one only after the writer's commit (its last store)",
                kind="proof", covers=3, timeout=900, mod="atomic_base_time", unwind_is_property_in="AtomicBaseTime::snapshot"),
        Harness("c18_try_update_never_blocks", ["C18"], "AtomicBaseTime::try_update",
                "never reaches the blocking Mutex::lock, lock held or free, poison flag (where the code asks for it through is_poisoned) "
                "arbitrary; cannot succeed while another writer holds the lock",
                kind="proof", timeout=900, mod="atomic_base_time"),
        Harness("c18_get_base_time_unlocked_never_locks", ["C18"], "nfs_voucher::get_base_time_unlocked",
                "on the process-wide BASE_TIME, for `now` on both sides of every staleness threshold (0, 2990/2991 ms, 59900/59901 ms, "
                "an hour, decades ahead, before the base): never reaches the blocking Mutex::lock, completes in one pass of the reader's "
                "loop, never fails", kind="bounded", bound="initial BASE_TIME state (no update made); `now` over 8 listed offsets from the base",
                timeout=900, mod="nfs_voucher", unwind_is_property_in="AtomicBaseTime::snapshot"),
        Harness("c14_real_voucher_pins_parameters", ["C14"], "VouchedTime::check",
                "with the real raffle code: a voucher for the base under the crate's parameters is accepted; one for "
                "another value, another base, or other parameters is rejected", kind="proof", timeout=600),
    ],
)



def _c15_harnesses():
    ops = [
        ("push_back", "SlidingDeque::push_back", "view' = view ++ [x]; back() = x", 2),
        ("pop_front", "SlidingDeque::pop_front", "returns view[0] (None on empty); view' = view[1..]", 4),
        ("pop_back", "SlidingDeque::pop_back", "returns view[last] (None on empty); view' = view[..last]", 3),
        ("advance", "SlidingDeque::advance", "for count in {{0..N+1}} u {{2^63, usize::MAX}}: returns min(count, len); view' = view[ret..] "
         "(states split over three harnesses by container length)", 3),
        ("clear", "SlidingDeque::clear", "view' = []", 0),
        ("slide", "SlidingDeque::slide", "view' = view; consumed prefix = 0", 1),
        ("views", "SlidingDeque::{front,back,front_mut,back_mut,deref,deref_mut,len,is_empty}",
         "views equal the reference; a write through front_mut/back_mut/deref_mut changes exactly that element", 3),
        ("new_from", "SlidingDeque::{new,from}", "fresh deques satisfy rep_ok and expose the container's items", 0),
    ]
    hs = []
    for backing, label in (("vec", "Vec<u8>"), ("small", "SmallVec<[u8;2]>")):
        for op, owner, post, covers in ops:
            names = ["c15_%s_%s" % (backing, op)]
            if op == "pop_back" and backing == "small":
                continue
            if op == "advance":
                names = ["c15_%s_advance_%s" % (backing, x) for x in ("abc" if backing == "vec" else "a")]
                covers = 0
            for nm in names:
              hs.append(Harness(
                nm, ["C15"], owner,
                "[%s] requires rep_ok; ensures rep_ok (consumed <= len/2, empty => consumed = 0, debug check_rep "
                "asserts pass, no panic) /\\ %s" % (label, post),
                kind="bounded", bound=("backing container length <= {N}" if backing == "vec" else
                                       ("backing container length <= {NSA} (CBMC runs out of memory on SmallVec beyond that; the Verus proof of advance "
                                        "is generic in the container)" if op == "advance" else "backing container length <= {NS}")) +
                ": every (length, consumed prefix) pair enumerated, contents symbolic; inductive per operation => all "
                "histories within that size",
                covers=covers, timeout=900, mod="sliding_deque"))
    for pre, label, bnd in (("c15_vec_contract_", "Vec<u8>", "{NC}"), ("c15_smallvec_contract_", "SmallVec<[u8;2]>", "{NS}")):
        for op, post in (("push", "push appends exactly one element"),
                         ("pop", "pop removes and returns the last element (None and unchanged on empty)"),
                         ("truncate", "truncate(k) keeps the first min(k, len) elements, for k = 0..len+1"),
                         ("slice_mut", "slice / slice_mut expose the contents in order; a write through slice_mut is visible, "
                                       "other elements and the length unchanged")):
            hs.append(Harness(pre + op, ["C15"], "impl PushTruncateContainer for " + label,
                              "the container contract the Verus proof of SlidingDeque relies on, on the real implementation: " + post,
                              kind="bounded", bound="containers of at most " + bnd + " elements (length enumerated, contents symbolic)",
                              timeout=900, mod="sliding_deque"))
    return hs


def _c16_harnesses():
    ops = [
        ("find", "SortedDeque::find", "returns the live item stored under exactly the probed key, None otherwise "
         "(erased items are never found)", 2, None),
        ("remove", "SortedDeque::remove", "returns the live item and removes exactly it from the map (front, back and middle "
         "positions); afterwards it is not found; absent key: None, map unchanged", 3, None),
        ("pop_first", "SortedDeque::{first,pop_first}", "first() / pop_first() are the smallest live item; map loses exactly it; "
         "newly exposed erased items are cleaned up", 1, None),
        ("pop_last", "SortedDeque::{last,pop_last}", "last() / pop_last() are the largest live item; map loses exactly it", 1, None),
        ("iter_clear", "SortedDeque::{iter,is_empty,clear}", "iteration yields exactly the live items in ascending key order; "
         "clear empties the map", 0, None),
        ("push_ok", "SortedDeque::push_back_or_panic", "erased item: no-op; key strictly greater than the last item: appended, "
         "becomes last(); no panic", 2, None),
        ("push_panics", "SortedDeque::push_back_or_panic", "key not strictly greater than the current last item: ALWAYS panics "
         "(the statement after the call is unreachable)", 0, "push_back_or_panic"),
    ]
    hs = []
    for kind, label in (("pairs", "(u8, Option<u8>) pairs"), ("whole", "whole-item ordering (SortedDequeItem)")):
        for op, owner, post, covers, mp in ops:
          split = op in ("remove", "pop_first", "pop_last", "iter_clear")
          for suffix in (("_a", "_b") if split else ("",)):
            hs.append(Harness(
                "c16_%s_%s%s" % (kind, op, suffix), ["C16"], owner,
                "[%s] requires rep_ok (sorted keys, first/last live, inner deque invariant); ensures rep_ok /\\ %s"
                % (label, post), kind="bounded",
                bound="at most {M} physical items: every (length, consumed prefix) enumerated; keys, values, erased flags "
                      "symbolic; inductive per operation => all histories within that size",
                covers=(0 if split else covers), timeout=1200, mod="sorted_deque", must_panic_in=mp))
        if kind == "whole":
            hs.append(Harness(
                "c16_whole_remove_tied_keys", ["C16"], "SortedDeque::remove",
                "[whole-item ordering, states in which two neighbouring items share the key field and differ by value] same triple "
                "as c16_whole_remove_*.  KNOWN FINDING F6: erasing such an item changes its rank, the physical items are no longer "
                "sorted and a present item is no longer found (c16_whole_remove_a/_b cover the states without tied key fields)",
                kind="bounded", bound="at most 3 physical items, tied key fields", covers=0, timeout=1200, mod="sorted_deque"))
        hs.append(Harness(
            "c16_%s_cleanup_front_contract" % kind, ["C16"], "SortedDeque::cleanup_front",
            "[%s] the contract the Verus unit sorted_deque now proves (rule N15), here as a second, bounded engine: from any inner-deque-valid state (erased flags arbitrary) "
            "cleanup_front drops exactly the leading run of erased items and changes nothing else" % label, kind="bounded",
            bound="at most {NCF} physical items, consumed prefix 0 or 1, erased flags symbolic", covers=2, timeout=1200,
            mod="sorted_deque"))
    return hs


SLIDING_DEQUE = KaniUnit(
    crate="sliding_deque",
    attachments=[("sliding_deque/src/sliding_deque.rs", os.path.join(KC, "sliding_deque.rs"), "sliding_deque"),
                 ("sliding_deque/src/sorted_deque.rs", os.path.join(KC, "sorted_deque.rs"), "sorted_deque")],
    params={"quick": {"N": 5, "NS": 3, "NC": 4, "U": 12, "M": 4, "NCF": 7, "UCF": 11, "NSA": 2}, "thorough": {"N": 7, "NS": 4, "NC": 6, "U": 14, "M": 5, "NCF": 10, "UCF": 14, "NSA": 2}},
    harnesses=_c15_harnesses() + _c16_harnesses(),
)

_C11_BOUND = "at most {K} pairs, values of at most {VL} bytes, all u32 tags"
_C11 = [
    Harness("c11_new_layout", ["C11"], "MessageWrapper::{new,encode,rough_tlv_len}",
            "unsorted lists with repeated tags and empty values: emitted bytes are exactly count | N-1 cumulative end offsets | "
            "N tags ascending, ties in insertion order | values concatenated; emitted length == rough_tlv_len",
            kind="bounded", bound=_C11_BOUND, covers=4, timeout=1500, mod="encoder"),
    Harness("c11_new_roundtrip", ["C11"], "MessageWrapper::encode -> MessageView",
            "MessageView accepts the emitted bytes and iter/get/find return the same pairs in the same (stable, sorted) order",
            kind="bounded", bound="at most {KR} pairs, values of at most {VL} bytes, all u32 tags", covers=1, timeout=1500,
            mod="encoder"),
    Harness("c11_cow_values", ["C11"], "MessageWrapper::{new_from_slice,encode}",
            "Cow values: Borrowed goes through append_borrow, Owned through append_copy; same layout and round trip",
            kind="bounded", bound="at most {KC} pairs, values of at most {VL} bytes (CBMC runs out of memory with 2 Cow pairs)", covers=1, timeout=1500, mod="encoder",
            mem_gb=32),
    Harness("c11_new_from_sorted", ["C11"], "MessageWrapper::new_from_sorted",
            "rejects exactly the lists whose tags decrease somewhere; accepted lists encode in the given order",
            kind="bounded", bound=_C11_BOUND, covers=2, timeout=1500, mod="encoder"),
    Harness("c11_length_limits_full_domain", ["C11"], "MessageWrapper::compute_len",
            "for value lengths over the FULL usize domain: Err <=> some length > i32::MAX or (header + sum of lengths, computed "
            "without saturation) > i32::MAX; Ok(l) => l is the exact total", kind="bounded",
            bound="at most {K} pairs; lengths: every usize (pair count > i32::MAX is not materialisable: by inspection only)",
            covers=4, timeout=1500, mod="encoder"),
]
_C12_BOUND = "every byte string of length <= {L} (N = 0..{L}/8 accepted shapes; every larger N, up to 2^32-1, rejected)"
ROUGH_TLV = KaniUnit(
    crate="rough_tlv",
    attachments=[("rough_tlv/src/decoder.rs", os.path.join(KC, "rough_tlv_decoder.rs"), "decoder"),
                 ("rough_tlv/src/encoder.rs", os.path.join(KC, "rough_tlv_encoder.rs"), "encoder")],
    params={"quick": {"L": 20, "U": 6, "LW": 88, "UW": 24, "K": 2, "KR": 1, "KC": 1, "VL": 1, "U11": 8, "NE": 10, "UE": 24},
            "thorough": {"L": 24, "U": 7, "LW": 136, "UW": 36, "K": 3, "KR": 2, "KC": 1, "VL": 2, "U11": 12, "NE": 19, "UE": 42}},
    harnesses=_C11 + [
        Harness("c12_new_accepts_exactly", ["C12"], "MessageView::new",
                "never panics; Ok <=> >= 4 bytes /\\ 8N <= len /\\ offsets non-decreasing /\\ tags non-decreasing "
                "/\\ last offset inside the payload", kind="bounded", bound=_C12_BOUND, covers=7, mod="decoder"),
        Harness("c12_new_accepts_exactly_wide", ["C12"], "MessageView::new",
                "acceptance only, wider window: never panics; Ok <=> the format's acceptance rule, with up to LW/8 pairs in the "
                "header", kind="bounded", bound="every byte string of length <= {LW} (N up to {LW}/8)", covers=3, timeout=1500,
                mod="decoder"),
        Harness("c12_new_accepts_exactly_fixed_n", ["C12"], "MessageView::new",
                "acceptance only, one pair count: every header of exactly {NE} pairs (symbolic offsets and tags) before a "
                "4-byte payload: never panics; Ok <=> the format's acceptance rule", kind="bounded",
                bound="N = {NE}, byte length 8N+4, all header words symbolic", covers=4, timeout=900, mod="decoder"),
        Harness("c12_values_tile", ["C12"], "MessageView::get_value",
                "on every accepted message, for every i < N: get_value(i) is the sub-slice [8N+start_i, 8N+end_i) "
                "(pointer identity), start_0 = 0, start_{i+1} = end_i, end_{N-1} = len: the values tile the bytes "
                "after the header", kind="bounded", bound=_C12_BOUND, covers=2, mod="decoder",
                functions=["MessageView::get_value", "MessageView::len", "MessageView::is_empty", "MessageView::offsets"]),
        Harness("c12_accessors_agree", ["C12"], "MessageView::{iter,get,tags}",
                "iter() yields exactly N pairs; pair k has tag = tags()[k] = header word N+k and value identical "
                "(pointer, length) to get(k) and get_value(k); no accessor panics", kind="bounded",
                bound=_C12_BOUND, covers=1, mod="decoder"),
        Harness("c12_out_of_range_is_none", ["C12"], "MessageView::{get_value,get}",
                "for every usize index >= N (so every index of an empty message): get_value and get return None",
                kind="bounded", bound=_C12_BOUND, covers=3, mod="decoder"),
        Harness("c12_find", ["C12"], "MessageView::{find,find_tag}",
                "for every u32 tag: find returns the value stored under exactly that tag, or None iff no header tag "
                "equals it", kind="bounded", bound=_C12_BOUND, covers=2, mod="decoder"),
    ],
)

HCOBS_KANI = KaniUnit(
    crate="hcobs",
    attachments=[("hcobs/src/lib.rs", os.path.join(KC, "hcobs.rs"), "")],
    params={"quick": {"L": 72, "U": 74}, "thorough": {"L": 136, "U": 138}},
    harnesses=[
        Harness("c07_constants", ["C07", "C01", "C02"], "PROD_PARAMS / RADIX / STUFF_SEQUENCE",
                "RADIX == 253, STUFF_SEQUENCE == [FE, FD], PROD_PARAMS == (252, 253*253-1 = 64008) in the real build",
                kind="proof", timeout=600),
        Harness("c07_find_stuff_sequence_bounded", ["C07", "C01", "C02"], "find_stuff_sequence",
                "Some(i) => FE FD at i and at no earlier index; None => at no index (the contract proved in the Verus units since rule N16; this harness is the second engine)",
                kind="bounded", bound="every slice of length <= {L}", covers=3, timeout=1500),
    ],
)

OWNING_IOVEC = KaniUnit(
    crate="owning_iovec",
    attachments=[("owning_iovec/src/byte_arena/mod.rs", os.path.join(KC, "byte_arena.rs"), "byte_arena")],
    params={"quick": {"S": 4, "CAP": 4, "U": 7}, "thorough": {"S": 5, "CAP": 5, "U": 8}},
    harnesses=[
        Harness("c17_read_n_impl_scripts", ["C17"], "ByteArena::read_n_impl",
                "for every reader script: at most max_attempts calls; each call asks for exactly the bytes still missing (never "
                "more than count in total); no call after EOF or a hard error; Ok(got) => got = bytes delivered, returned in "
                "order; Ok whenever something was delivered or nothing failed; Err only when nothing was delivered, with the last "
                "error's kind", kind="bounded",
                bound="scripts of <= {S} steps over {{deliver k, Interrupted, EOF, hard error}}, 1 <= count <= {CAP}, "
                      "1 <= max_attempts <= {S}", covers=6, timeout=1500, mod="byte_arena"),
        Harness("c17_read_n_zero_count", ["C17"], "ByteArena::read_n",
                "count == 0: returns an empty slice and never calls the reader, for every attempt limit", kind="proof",
                timeout=900, mod="byte_arena"),
    ],
)

KANI_UNITS = {u.crate: u for u in [VOUCHED_TIME, SLIDING_DEQUE, ROUGH_TLV, HCOBS_KANI, OWNING_IOVEC]}

import units_hcobs
import units_vouched_time
import units_sliding_deque
import units_chunker
import units_arena_read
import units_sorted_deque
import units_tlv_len
VERUS_UNITS = {"hcobs": units_hcobs.HCOBS, "vouched_time": units_vouched_time.VOUCHED_TIME_VX,
               "sliding_deque": units_sliding_deque.SLIDING_DEQUE_VX, "chunker": units_chunker.CHUNKER,
               "arena_read": units_arena_read.ARENA_READ, "sorted_deque": units_sorted_deque.SORTED_DEQUE_VX,
               "tlv_len": units_tlv_len.TLV_LEN}

# ---- Engine C: bounded native cross-checks (stand-ins only) ---------------------------------------------------
from native_engine import NativeTest, NativeUnit
KN = os.path.join(VERIF, "kn")
NATIVE_UNITS = {
    "rough_tlv": NativeUnit("rough_tlv", "rough_tlv",
        [("rough_tlv/src/encoder.rs", os.path.join(KN, "rough_tlv_encoder.rs")),
         ("rough_tlv/src/decoder.rs", os.path.join(KN, "rough_tlv_decoder.rs"))],
        [NativeTest("verif_native_layout_many_pairs", ["C11"], "MessageWrapper::new",
                    "same triple as c11_new_layout / c11_new_roundtrip / c11_cow_values / c11_new_from_sorted on long lists: emitted "
                    "bytes == Roughtime layout with ties in insertion order; emitted length == rough_tlv_len; new_from_sorted rejects "
                    "exactly decreasing tags; MessageView returns the same pairs in the same order (iteration, indexing, tag lookup)",
                    "n = 0..={NP} pairs x 7 tag patterns (all ties, 3 classes cycling, descending, sorted, random classes, arbitrary, "
                    "swapped tie blocks) x 3 value-length patterns (values 0..5 bytes)"),
         NativeTest("verif_native_layout_random_lists", ["C11"], "MessageWrapper::new",
                    "as above, on LCG-drawn lists with 1..5 tag classes", "{NR} lists of 0..={NP} pairs, fixed seed"),
         NativeTest("verif_native_nested_messages", ["C11"], "MessageWrapper as ToRoughTLV",
                    "values that are themselves messages: the outer layout carries the inner message's bytes as a value of length "
                    "rough_tlv_len; outer and inner views decode to the same pairs (the Kani harness for this case runs out of memory)",
                    "inner lists of 0..=6 pairs x outer lists of 1..=5 messages x 4 tag patterns"),
         NativeTest("verif_native_headers_with_many_pairs", ["C12"], "MessageView::new",
                    "same triple as the c12_* harnesses on headers with many pairs: never panics; Ok <=> the format's acceptance rule; "
                    "values tile the bytes after the header; indexing, iteration and the tag array agree; indices >= N yield nothing; "
                    "tag lookup returns a value stored under exactly that tag or nothing",
                    "N = 0..={NP}: sorted baseline, truncation at every length, every single adjacent inversion of tags and of offsets, "
                    "last offset at/inside/beyond the payload end, pair counts larger than the buffer and near 2^32"),
         NativeTest("verif_native_random_headers", ["C12"], "MessageView::new",
                    "as above on LCG-drawn, mostly-sorted headers with perturbations and truncations",
                    "{NR} byte strings with N <= {NP}, fixed seed")],
        params={"quick": {"NP": 72, "NR": 4000}, "thorough": {"NP": 300, "NR": 60000}}),
    "sorted_deque": NativeUnit("sorted_deque", "sliding_deque",
        [("sliding_deque/src/sorted_deque.rs", os.path.join(KN, "sorted_deque.rs"))],
        [NativeTest("verif_native_every_removal_subset_pairs", ["C16"], "SortedDeque::remove",
                    "same triple as the c16_* harnesses beyond their bound, (key, Option<value>) convention: after EVERY step, iteration, "
                    "is_empty, first/last and find of every key equal the reference ordered map; removed or popped keys are never "
                    "found, iterated or returned again; erased pushes are no-ops",
                    "n = 0..={NK} keys x every subset of removed keys x 3 removal orders x 4 drain patterns (pop_first, pop_last, "
                    "alternating, remove-front + further pushes)"),
         NativeTest("verif_native_every_removal_subset_whole_items", ["C16"], "SortedDeque::remove",
                    "as above for the whole-item ordering convention (SortedDequeItem)", "as above"),
         NativeTest("verif_native_random_operation_sequences", ["C16"], "SortedDeque::push_back_or_panic",
                    "as above on LCG-drawn operation sequences, both conventions",
                    "{NR} sequences of 48 operations over 16 keys, fixed seed"),
         NativeTest("verif_native_push_not_greater_panics", ["C16"], "SortedDeque::push_back_or_panic",
                    "pushing a key that is not strictly greater than the current last item panics",
                    "1..=6 keys, every non-greater key")],
        params={"quick": {"NK": 10, "NR": 3000}, "thorough": {"NK": 13, "NR": 40000}}, timeout=1200),
    "sliding_deque": NativeUnit("sliding_deque", "sliding_deque",
        [("sliding_deque/src/sliding_deque.rs", os.path.join(KN, "sliding_deque.rs"))],
        [NativeTest("verif_native_fill_and_drain_every_backing", ["C15"], "SlidingDeque (SmallVec / Vec backings)",
                    "same triple as the c15_* harnesses (every operation against a reference VecDeque, observed after EVERY step: slice "
                    "view, front/back, len/is_empty, returned items, advance's count; no panic) on real backings through inline -> heap "
                    "transitions of SmallVec, which the Kani bound (<= 3 elements) never reaches",
                    "fill to n = 0..={NF}, drain by 1,2,3,5,9,17,usize::MAX at a time through advance / pop_front / pop_front+pop_back+writes; "
                    "Vec<u32>, SmallVec<[u32;1]>, <[u32;4]>, <[u32;8]>"),
         NativeTest("verif_native_random_operations_every_backing", ["C15"], "SlidingDeque (SmallVec / Vec backings)",
                    "as above on LCG-drawn operation sequences with growing / steady / shrinking phases",
                    "{NR} sequences of 200 operations per backing, fixed seed")],
        params={"quick": {"NF": 40, "NR": 300}, "thorough": {"NF": 120, "NR": 3000}}, timeout=1200),
    "vouched_time": NativeUnit("vouched_time", "vouched_time",
        [("vouched_time/src/lib.rs", os.path.join(KN, "vouched_time.rs"))],
        [NativeTest("verif_native_window_edges_with_real_vouchers", ["C14"], "VouchedTime::new",
                    "same triple as c14_check_composition, through the public constructor with REAL vouchers (the repository's test "
                    "vouching parameters): Ok <=> vouched /\\ local not before the epoch (ns) /\\ -59900 <= floor-ms(local) - base <= 2990 "
                    "without wrap-around; a constructed value reports its local time; other vouchers are rejected",
                    "66 local times (epoch +- ns/ms, window widths, 2024, calendar limits, 2^k ns and ms with neighbours) x ~70 base times "
                    "each (window edges, the same modulo 2^32 / 2^63 / 2^64, 0, u64::MAX, i64::MAX)"),
         NativeTest("verif_native_now_uses_the_clock_reading", ["C14"], "VouchedTime::now",
                    "now() applies the same rule to the current clock: with a provider that answers with a (really vouched) base time at "
                    "a chosen distance from the clock reading it was handed, now() accepts exactly the distances inside the window and the "
                    "value reports exactly that clock reading (real clock; exact at nanosecond resolution, so no flakiness on correct code)",
                    "40 readings of the real clock x 9 distances (window edges +-1 ms, 0), each accepted distance also with a voucher for another value and one made under other parameters")],
        params={"quick": {}, "thorough": {}}),
    "byte_arena": NativeUnit("byte_arena", "owning_iovec",
        [("owning_iovec/src/byte_arena/mod.rs", os.path.join(KN, "byte_arena.rs"))],
        [NativeTest("verif_native_read_n_scripts", ["C17"], "ByteArena::read_n",
                    "the whole of read_n -- the unsafe alloc/release wrapper the Verus unit arena_read ASSUMES, around the proved retry loop "
                    "-- on real arenas: at most max_attempts calls, never more than count bytes asked, no call after EOF / a hard error, "
                    "Ok with EXACTLY the bytes delivered (in order) whenever something was delivered or EOF came first, Err(the last error) "
                    "otherwise, count == 0 returns an empty slice without reading",
                    "every script of <= 4 steps over {{deliver 1,3,5,8,13, Interrupted, EOF, hard error}} x counts {{0,1,2,7,8,9,64,4095,4096,4097,"
                    "8192,70000}} (4-step scripts: counts 9 and 4096) x max_attempts 1..=5, fresh and used arena")],
        params={"quick": {}, "thorough": {}}),
    "hcobs": NativeUnit("hcobs", "hcobs",
        [("hcobs/src/lib.rs", os.path.join(KN, "hcobs_find_stuff.rs"))],
        [NativeTest("verif_native_find_stuff_sequence_positions", ["C01", "C02", "C07", "C08"], "find_stuff_sequence",
                    "the contract the Verus units now PROVE for find_stuff_sequence (Some(i) <=> i is the first index with FE FD), here as a second, bounded engine with concrete inputs, "
                    "beyond the lengths the Kani harness c07_find_stuff_sequence_bounded can afford",
                    "every length 0..={NL} x 6 backgrounds x (no pair / FE FD at every position / lone FE / lone FD at every position / "
                    "a second pair 2..=17, 31..33, 63..65 bytes later)"),
         NativeTest("verif_native_find_stuff_sequence_windows", ["C01", "C02", "C07", "C08"], "find_stuff_sequence",
                    "as above, around FE / FD: every 3-byte window over the alphabet 00 FC FD FE FF at every position",
                    "every length 0..={NW} and 63..66, 127..130, 255..257 x 3 backgrounds x every position x 125 windows")],
        params={"quick": {"NL": 200, "NW": 40}, "thorough": {"NL": 400, "NW": 96}}),
}

# property -> description of how it is decided
PROPERTIES = {
    "C14": {
        "level": "proof",
        "native_units": ["vouched_time"],
        "kani_units": ["vouched_time"],
        "verus_units": ["vouched_time"],
        "assumptions": [
            "ASSUMED (dependencies, vx/vouched_time/standins.rs): raffle::CheckingParameters::check is a deterministic "
            "predicate `vouches`; time::PrimitiveDateTime::assume_utc / OffsetDateTime::unix_timestamp_nanos return the "
            "value's UTC nanoseconds since the epoch; OffsetDateTime::now_utc returns an arbitrary value; "
            "std::io::Error::other builds an error value (N9 alias io_error_other)",
            "representation invariant `valid` of VouchedTime: fields are private and every constructor (new, new_or_die, "
            "now, now_or_die) ensures it; get_local_time / check_or_die require it (Clone/Copy preserve it)",
            "Kani cross-checks run the real `time` and `raffle` code; Voucher is repr(transparent) over u64",
            "now_or_die = now(..).expect(..): panics by design when now fails; not under contract",
        ],
    },
}

PROPERTIES["C15"] = {
    "level": "proof",
    "native_units": ["sliding_deque"],
    "kani_units": ["sliding_deque"],
    "verus_units": ["sliding_deque"],
    "assumptions": [
        "Verus (unbounded, generic in the container): every SlidingDeque operation is proved against the reference deque for "
        "ANY container honouring the PushTruncateContainer contract woven into the trait (vx/sliding_deque/overlays/trait.ovl); "
        "Vec<T>'s implementation of that contract is proved from vstd's Vec specification; SmallVec's is ASSUMED and "
        "cross-checked by the bounded Kani harness c15_smallvec_container_contract",
        "ASSUMED std contract: <[T]>::copy_within(src.., dest) is memmove (N9 alias slice_copy_within_from)",
        "N12: Deref::deref / DerefMut::deref_mut bodies are verified re-homed as inherent methods under the precondition "
        "'read pointer inside the container'; the trait methods are assumed-contract stubs with the same postcondition and "
        "every auto-deref call site in the unit asserts that precondition; SlidingDeque::new (derived Default) is covered "
        "only by the Kani harness",
        "both build configurations are verified: debug assertions on (the test profile, check_rep asserts active) and "
        "-C debug-assertions=off (slide's release-only early return)",
        "the Kani harnesses below are bounded cross-checks on the real Vec / SmallVec code:",
        "bounded: backing container length <= 5 quick / 7 thorough for Vec<u8>, <= 3 / 4 for SmallVec<[u8;2]> (inline->heap "
        "transition at 2 is inside the bound; CBMC exhausts 20 GB beyond); element type u8",
        "induction over operations is a meta-argument (each operation proved from an arbitrary rep_ok state)",
        "Vec / SmallVec are executed as real code by Kani (no assumed contracts)",
    ],
}

PROPERTIES["C16"] = {
    "level": "model_checking",
    "native_units": ["sorted_deque"],
    "kani_units": ["sliding_deque"],
    "verus_units": ["sorted_deque"],
    "assumptions": [
        "UNBOUNDED (Verus unit sorted_deque, generic in the container and the comparator): new, push_back_or_panic, clear, is_empty, "
        "first, last, pop_first, pop_last, find, find_index, remove, cleanup_front, cleanup_back, check_rep against the reference ordered map "
        "`live` (the non-erased physical items, in order) and the invariant wf (inner deque invariant, keys strictly increasing "
        "over ALL physical items, first and last physical item live); on top of the SlidingDeque contracts of C15 (re-verified in "
        "the same unit)",
        "SortedDeque::cleanup_front is PROVED in the unit as well (it drops exactly the leading run of erased items): its "
        "`for (idx, item) in self.items.iter().enumerate()` loop is desugared mechanically into an indexed while loop by rule N15 "
        "(reported under n_rules_applied) and carries a loop invariant; the Kani harnesses c16_*_cleanup_front_contract remain as a "
        "second engine with concrete counterexamples",
        "ASSUMED in that proof: (2) the comparator's order laws (Less/Greater antisymmetry, transitivity of Less, Equal is a congruence) and the "
        "SortedDequeComparator / SortedDequeMarker method contracts (is_erased, extract_key, cmp pure; mark_erased sets the "
        "flag and keeps the key) -- for the two PROVIDED conventions these are checked only by the bounded Kani harnesses; the "
        "default body of is_erased is dropped (N14); (3) std: <[T]>::binary_search_by as documented, Ordering::eq structural",
        "NOT covered by the Verus unit: iter() (an `impl Iterator` built from .iter().filter(), outside the dialect) and Default; "
        "'pushing a not-greater key panics' (in Verus the assert is a proof obligation met by the precondition): these rest on "
        "the bounded Kani harnesses (c16_*_iter_clear, c16_*_push_panics) and the native cross-check",
        "bounded (Kani): at most M physical items (4 quick / 5 thorough), keys u8, values Option<u8>; both provided item "
        "conventions ((key, Option<value>) pairs and a SortedDequeItem with whole-item ordering); Vec backing",
        "bounded (native, Engine C): every subset of removals over <= 10 / 13 keys, both conventions",
    ],
}

PROPERTIES["C18"] = {
    "level": "proof",
    "kani_units": ["vouched_time"],
    "verus_units": [],
    "assumptions": [
        "suspension points are covered as STATES: at most one writer is inside the critical section, it holds the lock, and "
        "everything it has done so far went to the non-stable slot (then, last, to `sequence`); the harness starts from every "
        "such state (sequence: any u64; non-stable slot: any bits; lock held or free) and runs the reader / try_update caller "
        "alone to completion.  That writers obey this discipline is the content of C13 (not claimed)",
        "sequential consistency at atomic-operation granularity (Kani has no threads; Release/Acquire are not modelled)",
        "published pairs are 4 concrete vouched pairs (base times 0, 42, 1713027659000, u64::MAX): a symbolic base time makes "
        "CBMC invert raffle's 64-bit multiplication and does not finish",
        "std::sync::Mutex runs as real code under Kani; get_base_time_unlocked is `BASE_TIME.snapshot()` on the module's "
        "static (one line, by inspection)",
    ],
}

PROPERTIES["C08"] = {
    "level": "proof",
    "kani_units": [],
    "native_units": ["hcobs"],
    "verus_units": ["chunker"],
    "assumptions": [
        "ASSUMED (vx/chunker/assumed.rs): `(&mut slice).chain(&mut reader)` handed to `ByteArena::read_n(.., count, MAX)` returns "
        "exactly the first min(count, available) bytes of carried ++ remaining(reader) and advances the reader accordingly (N9 "
        "alias read_n_chained): Chain order, read_n's loop (bounded Kani check c17_*), short reads and Interrupted in any pattern, "
        "NO hard I/O errors (C08's quantifier has none)",
        "ASSUMED: AnchoredSlice::{slice, take, skip_prefix, split_at} act on the exposed bytes as documented; arena states and "
        "memory liveness are out of scope (C05)",
        "find_stuff_sequence is no longer assumed: the real function is part of the unit and PROVED (first FE FD index or None; its "
        "windows(2).enumerate() loop is desugared mechanically by rule N16 and carries a loop invariant)",
        "the reader is moved into pump: that the caller's reader has advanced by what pump consumed (impl Read for &mut R) is "
        "part of the reader model; the tiling of successive calls follows from the per-call contract by induction on calls "
        "(lemma theorem_c08_tiling)",
        "requires: the stream's absolute length fits in u64",
    ],
}

PROPERTIES["C17"] = {
    "level": "model_checking",
    "native_units": ["byte_arena"],
    "kani_units": ["owning_iovec"],
    "verus_units": ["arena_read", "hcobs"],
    "assumptions": [
        "arena half, UNBOUNDED (Verus unit arena_read): ByteArena::read_n_impl for every reader script, count and attempt "
        "limit, against the ASSUMED contract of std::io::Read::read (one call = one script step; a delivery is non-empty, fits "
        "the buffer offered, lands at its start, leaves the rest untouched) and of <[u8]>::fill, io::Error::kind, Option::replace",
        "bounded (owning_iovec half, Kani, kept as an independent second engine with counterexample playback): reader scripts of <= 4 (quick) / 5 (thorough) steps, count <= 4 / 5, attempts <= 4 / 5",
        "ASSUMED: the unsafe alloc/release wrapper ByteArena::read_n around read_n_impl (arena code: Kani out of memory, "
        "outside Verus's subset) hands read_n_impl a zeroed buffer of exactly `count` bytes and returns its first `got` bytes; "
        "arena states (empty cache, nearly full chunk) are therefore NOT explored",
        "codec half (Verus, unbounded): Encoder/Decoder::{read_n, encode_read, decode_read} against the assumed contract "
        "`ByteArena::read_n returns at most count bytes`: a failed read leaves output and state untouched, a successful one "
        "encodes/decodes exactly the returned bytes",
        "reader deliveries larger than the buffer offered (a Read contract violation) are out of scope",
    ],
}

PROPERTIES["C11"] = {
    "level": "model_checking",
    "native_units": ["rough_tlv"],
    "kani_units": ["rough_tlv"],
    "verus_units": ["tlv_len"],
    "assumptions": [
        "UNBOUNDED (Verus unit tlv_len): MessageWrapper::compute_len -- the acceptance / length rule shared by all three "
        "constructors -- for every number of pairs and every usize value length, generic in the value type: Ok <=> the i32::MAX "
        "limits hold, Ok(n) => n == 4 + 4(N-1) + 4N + sum of value lengths, every error names its cause; the loop "
        "`for (rank, len) in elements.iter().map(|x| ..).enumerate()` is desugared mechanically by rule N17; ASSUMED there: "
        "ToRoughTLV::rough_tlv_len is a pure function of the value (ghost tlv_len); ZeroCopySink is an empty stand-in trait "
        "(compute_len never touches a sink).  That encode() emits exactly that many bytes in the Roughtime layout, and the "
        "sort, remain BOUNDED (below)",
        "bounded: <= 2 pairs x <= 1-byte values (quick), <= 3 x <= 2 (thorough); all u32 tags; the i32::MAX rule over all "
        "usize lengths; pair count > i32::MAX not materialisable (inspection only)",
        "sink (Kani) = a recording ZeroCopySink defined in the harness: MessageWrapper is generic in its sink and OwningIovec / the "
        "HCOBS Encoder cannot be loaded into Kani (arena; measured out-of-memory); the native cross-check also writes every list into "
        "a REAL OwningIovec, and the hcobs search drives the Encoder through its ZeroCopySink impl (append_copy / append_borrow) -- "
        "'all ZeroCopySink targets' is covered that far, bounded",
        "slice::sort_by_key runs as real code (stability is checked against a reference insertion sort)",
        "beyond the Kani bounds: a NATIVE bounded cross-check (Engine C, never counted as proof) runs the same triple on lists of "
        "up to 72 (quick) / 300 (thorough) pairs -- the standard sorts change algorithm above ~20 elements",
    ],
}

PROPERTIES["C12"] = {
    "level": "model_checking",
    "native_units": ["rough_tlv"],
    "kani_units": ["rough_tlv"],
    "verus_units": [],
    "assumptions": [
        "bounded: all byte strings of length <= 20 (quick) / 24 (thorough); complete below the bound "
        "(unwinding assertions on)",
        "the unsafe slice_as_tags cast runs under CBMC's pointer checks (no assumed contract)",
        "Cow::Borrowed input only (Cow::Owned differs only in who frees the buffer)",
        "beyond the Kani bounds: a NATIVE bounded cross-check (Engine C, never counted as proof) runs the same triple on headers "
        "of up to 72 (quick) / 300 (thorough) pairs",
    ],
}

_HCOBS_ASSUMED = [
    "ASSUMED (not proved here; producer-side content of C03/C04): OwningIovec::{new,push,push_copy,register_patch,"
    "backfill_or_panic,push_anchor} contracts over the ghost view (bytes, pending) -- vx/hcobs/assumed_iovec.rs",
    "find_stuff_sequence is no longer assumed: the real function is part of the unit and PROVED for slices of every length "
    "(Some(i) <=> first index of FE FD, None <=> no FE FD): its `for (idx, window) in bytes.windows(2).enumerate()` loop is "
    "desugared mechanically into an indexed while loop by rule N16 (reported under n_rules_applied); slice == array comparison "
    "per vstd's specification.  The Kani harness c07_find_stuff_sequence_bounded and the native enumeration stay as second "
    "engines (concrete counterexamples, and they still decide when a rewrite of the function leaves Verus's dialect)",
    "ASSUMED: AnchoredSlice::components yields exactly the anchored bytes (unsafe in the real crate; memory validity is C05)",
    "ASSUMED: Backref::len == registered pattern length; Backref: Default; std::mem::swap per vstd's specification",
    "consumer-side operations (drains) do not change the ghost view (bytes, pending): the logical stream since "
    "creation; that drained bytes equal a prefix of it is C03, assumed",
    "C09's slice-granularity slack ('one arena chunk') lives inside OwningIovec::stable_prefix and is assumed, not proved",
    "Verus N-rules (see coverage.n_rules_applied) are syntactic and trusted; the lexer/extractor is trusted",
]
for _pid in ("C01", "C02", "C07", "C09"):
    PROPERTIES[_pid] = {
        "level": "proof",
        "kani_units": ["hcobs"] if _pid != "C09" else [],
        "native_units": ["hcobs"] if _pid != "C09" else [],
        "verus_units": ["hcobs"],
        "assumptions": list(_HCOBS_ASSUMED),
    }

TRUSTED_BASE = [
    "Verus 0.2026.09.13 / Z3 (machine integers checked for overflow on every exec operation; termination by decreases)",
    "the spec functions enc / dstep / drun in /verif/vx/hcobs (transcriptions of the format)",
    "Kani 0.68 / CBMC 6.11 / CaDiCaL (bit-precise; machine arithmetic not idealised)",
    "rustc (Kani's pinned nightly) MIR semantics",
    "the harness oracles in /verif/kc/*.rs and /verif/kn/*.rs (transcriptions of the property statements)",
]
