"""Verus unit: VouchedTime (vouched_time/src/lib.rs).  C14 composition, modular over the callee contracts."""
from verus_engine import VFn, VGhost, VImpl, VItem, VLemma, VerusUnit

F = "vouched_time/src/lib.rs"
R = {"N1", "N2", "N3", "N4", "N5", "N10"}
IMP = "impl /^impl VouchedTime/"
WHY = ("std::io::Error::other (generic over Into<Box<dyn Error>>) replaced by the monomorphic assumed-contract alias "
       "io_error_other; the error payload carries no content for C14")
SUBS = [("N9", "        let other = std::io::Error::other;\n", "", WHY + " (local alias removed)"),
        ("N9", "Err(other(", "Err(io_error_other(", WHY),
        ("N9", "std::io::Error::other(", "io_error_other(", WHY)]


def f(name, text):
    return VFn(F, [IMP, "fn " + name], name + ".ovl", ["C14"], text, rules=R, subs=SUBS, name="VouchedTime::" + name)


VOUCHED_TIME_VX = VerusUnit(
    name="vouched_time",
    uses=[],
    segments=[
        VGhost("standins.rs"),
        VItem(F, ["const MAX_FORWARD_DISCREPANCY_MS"]),
        VItem(F, ["const MAX_BACKWARD_DISCREPANCY_MS"]),
        VItem(F, ["struct VouchedTime"]),
        VGhost("spec.rs"),
        VImpl("impl VouchedTime", [
            f("check_vouched_time", "ensures Ok <=> 0 <= local <= u64::MAX /\\ -59900 <= local - base <= 2990 over the "
                                    "integers (no wrap); no panic, no overflow; all (i128, u64)"),
            f("check", "ensures Ok <=> voucher vouches for base under BASE_TIME_CHECK /\\ local is not before the epoch (in nanoseconds) /\\ "
                       "window(ms(local), base), with ms = floor(nanoseconds since the epoch / 10^6); uses only the callee contracts"),
            f("check_or_die", "requires valid; never panics"),
            f("new", "ensures Ok <=> acceptable(local, base, voucher); Ok(v) => v is valid and stores exactly the arguments; "
                     "the internal check_or_die cannot panic"),
            f("new_or_die", "requires acceptable; ensures valid and stores the local time"),
            f("get_local_time", "requires valid (established by every constructor); ensures returns exactly the stored "
                                "local time; the internal self-check cannot panic"),
            f("now", "for any clock value and any provider result: Ok(v) => v valid (same rule as new)"),
        ]),
    ],
    lemmas=[],
)
