"""Verus unit: StreamChunker::pump (hcobs/src/stream_reader.rs).  C08, per-call contract against a ghost stream."""
from verus_engine import VFn, VGhost, VImpl, VItem, VLemma, VerusUnit

F = "hcobs/src/stream_reader.rs"
LIB = "hcobs/src/lib.rs"
R = {"N1", "N2", "N3", "N4", "N5", "N10"}
WHY = ("`(&mut slice).chain(&mut reader)` + `arena.read_n(concat, count, MAX)` replaced by the assumed-contract function "
       "read_n_chained(arena, &carried, &mut reader, count) (Chain order + read_n semantics + reader advance: vx/chunker/assumed.rs); "
       "the count expression is kept verbatim")
SUBS = [
    ("N9", "            let mut slice = buf.slice();\n", "", WHY + " [cursor over the carried bytes]"),
    ("N9", "            let concat = (&mut slice).chain(&mut reader);\n", "", WHY + " [chain adapter]"),
    ("N9", "arena.read_n(concat, ", "read_n_chained(arena, &buf, &mut reader, ", WHY),
    ("N9", ", NonZeroUsize::MAX)?;", ")?;", WHY + " [unbounded attempt budget is part of the assumed contract]"),
    ("N9", "super::find_stuff_sequence(", "find_stuff_sequence(", "single-module assembly"),
]

CHUNKER = VerusUnit(
    name="chunker",
    uses=["use std::num::NonZeroUsize;"],
    segments=[
        VItem(LIB, ["const STUFF_SEQUENCE"]),
        VGhost("../hcobs/spec_enc.rs"),
        VGhost("assumed.rs"),
        VFn(LIB, ["fn find_stuff_sequence"], "find_stuff_sequence.ovl", ["C08"],
            "Some(i) <=> i is the first index with bytes[i..i+2] == FE FD; None <=> FE FD occurs nowhere; terminates; no panic",
            rules={"N5", "N16"}, name="find_stuff_sequence"),
        VItem(F, ["struct StreamChunker"], keep_derives=()),
        VItem(F, ["enum Chunk"], keep_derives=()),
        VGhost("spec.rs"),
        VImpl("impl StreamChunker", [
            VFn(F, ["impl /^impl StreamChunker/", "fn pump"], "pump.ovl", ["C08"],
                "for every stream S with S[offset..] == buf ++ remaining(reader): Sentinel(o) => o = offset+2 and S[offset..o] = FE FD; "
                "Data(o, d) => d = S[offset..o], d non-empty, no FE FD inside d, and if d ends in FE then o is the end of S or "
                "S[o] != FD (no straddle); Eof => offset = |S|; afterwards the chunker holds exactly the stream from o on; "
                "terminates; no panic; no u64 overflow of the offset", rules=R, subs=SUBS, name="StreamChunker::pump"),
        ]),
    ],
    lemmas=[VLemma("theorem_c08_tiling_step", ["C08"], "the returned chunk's bytes ++ the stream still held == the stream held before; "
                    "Eof <=> nothing returned: successive chunks tile the input (induction on calls)")],
    cex_search={"crate": "hcobs", "attach_to": "hcobs/src/stream_reader.rs", "src": "cex_search.rs", "filter": "verif_cex_chunker"},
)
