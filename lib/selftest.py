"""Thorough-tier self-test of the Verus units: single-token mutants of the real code, applied to a scratch copy of
/repo's working tree.  Each must make at least one obligation of its unit fail; a mutant that verifies means the
contracts have gone slack (or the weaver lost something) -> the check exits 2 (undecided), never 1."""
import os
import shutil

import common
from common import VIOLATED, Undecided

# (unit, file, old, new, what)
MUTANTS = [
    ("hcobs", "hcobs/src/encoder.rs", "(index, index + STUFF_SEQUENCE.len())", "(index, index + 1)",
     "consume_once: wrong consumed count after a stuff sequence"),
    ("hcobs", "hcobs/src/encoder.rs", "self.maybe_mid_stuff = input[input.len() - 1] == STUFF_SEQUENCE[0];",
     "self.maybe_mid_stuff = false;", "consume_once: never hold back a trailing FE"),
    ("hcobs", "hcobs/src/encoder.rs", "let header = [(chunk_size % RADIX) as u8, (chunk_size / RADIX) as u8, 0];",
     "let header = [(chunk_size / RADIX) as u8, (chunk_size % RADIX) as u8, 0];", "encode_header: swapped header digits"),
    ("hcobs", "hcobs/src/encoder.rs", "} else if input.len() == remaining {", "} else if input.len() + 1 == remaining {",
     "consume_once: wrong full-chunk comparison"),
    ("hcobs", "hcobs/src/decoder.rs", "let terminate_with_stuff_sequence = chunk_size < max_subsequent_size;",
     "let terminate_with_stuff_sequence = chunk_size <= max_subsequent_size;", "MidHeader::decode: full chunk followed by a stuff sequence"),
    ("hcobs", "hcobs/src/decoder.rs", "if initial_byte as usize >= RADIX {", "if initial_byte as usize > RADIX {",
     "BeforeChunk::decode: accepts header byte 253"),
    ("hcobs", "hcobs/src/decoder.rs", "if state.should_insert_stuff_sequence {\n                    // We must have",
     "if !state.should_insert_stuff_sequence {\n                    // We must have", "DecoderState::terminate: accepts a stream ending on a full chunk"),
    ("hcobs", "hcobs/src/lib.rs", "max_initial_size: unsafe { NonZeroUsize::new_unchecked(RADIX - 1) },",
     "max_initial_size: unsafe { NonZeroUsize::new_unchecked(RADIX - 2) },", "PROD_PARAMS: first-chunk limit 251"),
    ("sliding_deque", "sliding_deque/src/sliding_deque.rs", "if (self.consumed_prefix > self.container.slice().len() / 2) | self.is_empty() {",
     "if (self.consumed_prefix > self.container.slice().len() / 2 + 1) | self.is_empty() {", "maybe_slide: slides one element too late"),
    ("sliding_deque", "sliding_deque/src/sliding_deque.rs", "            .saturating_sub(self.consumed_prefix)\n            .min(count);",
     "            .saturating_sub(self.consumed_prefix)\n            .max(count);", "advance: max instead of min"),
    ("vouched_time", "vouched_time/src/lib.rs", "if local_time_ms > u64::MAX as i128 {", "if local_time_ms > i64::MAX as i128 {",
     "check_vouched_time: rejects representable local times above i64::MAX"),
    ("vouched_time", "vouched_time/src/lib.rs", "        ret.check_or_die();\n        Ok(ret)", "        Ok(ret)",
     "new: (harmless) -- control: dropping the redundant self-check must NOT be reported"),
    ("arena_read", "owning_iovec/src/byte_arena/mod.rs", "                        // EOF: bail out with Ok(len).\n                        err = None;\n",
     "                        // EOF: bail out with Ok(len).\n", "read_n_impl: an earlier Interrupted survives EOF (Err instead of Ok(0))"),
    ("arena_read", "owning_iovec/src/byte_arena/mod.rs", "            (0, Some(e)) => Err(e),", "            (_, Some(e)) => Err(e),",
     "read_n_impl: fails although bytes were delivered"),
    ("arena_read", "owning_iovec/src/byte_arena/mod.rs", "            if got == slice.len() {\n                break;",
     "            if got + 1 == slice.len() {\n                break;", "read_n_impl: stops one byte short of full"),
    ("sorted_deque", "sliding_deque/src/sorted_deque.rs", "        } else if idx == len - 1 {\n            self.pop_last()",
     "        } else if idx == len {\n            self.pop_last()", "remove: the last item is erased logically instead of popped"),
    ("sorted_deque", "sliding_deque/src/sorted_deque.rs", "            if !self.marker.is_erased(back) {\n                break;",
     "            if self.marker.is_erased(back) {\n                break;", "cleanup_back: pops live items, keeps erased ones"),
    ("sorted_deque", "sliding_deque/src/sorted_deque.rs", "        if self.marker.is_erased(item) {\n            None\n        } else {\n            Some(item)",
     "        if !self.marker.is_erased(item) {\n            None\n        } else {\n            Some(item)", "find: returns erased items, hides live ones"),
    ("sorted_deque", "sliding_deque/src/sorted_deque.rs", "        let ret = self.items.pop_back()?;\n        self.cleanup_back();",
     "        let ret = self.items.pop_back()?;", "pop_last: newly exposed erased items are not cleaned up"),
    ("sorted_deque", "sliding_deque/src/sorted_deque.rs", "            if !self.marker.is_erased(item) {\n                to_drop = idx;",
     "            if self.marker.is_erased(item) {\n                to_drop = idx;", "cleanup_front: stops at the first ERASED item (drops live ones)"),
    ("sorted_deque", "sliding_deque/src/sorted_deque.rs", "                to_drop = idx;\n                break;", "                to_drop = idx + 1;\n                break;",
     "cleanup_front: drops the first live item as well"),
    ("hcobs", "hcobs/src/lib.rs", "        if window == STUFF_SEQUENCE {\n            return Some(idx);", "        if window == STUFF_SEQUENCE {\n            return Some(idx + 1);",
     "find_stuff_sequence: reports the index of the FD"),
    ("chunker", "hcobs/src/lib.rs", "    for (idx, window) in bytes.windows(2).enumerate() {", "    for (idx, window) in bytes.windows(3).enumerate() {",
     "find_stuff_sequence: windows of 3 never equal the 2-byte stuff sequence (always None)"),
    ("tlv_len", "rough_tlv/src/encoder.rs", "ret = ret.saturating_add(elements.len().saturating_mul(4));", "ret = ret.saturating_add(elements.len().saturating_mul(8));",
     "compute_len: 8 bytes per tag"),
    ("tlv_len", "rough_tlv/src/encoder.rs", "                if encoded_len > i32::MAX as usize {", "                if encoded_len >= i32::MAX as usize {",
     "compute_len: rejects a value of exactly i32::MAX bytes"),
    ("tlv_len", "rough_tlv/src/encoder.rs", "        if ret > i32::MAX as usize {\n            // This also handles saturation.", "        if ret > u32::MAX as usize {\n            // This also handles saturation.",
     "compute_len: total limit u32::MAX instead of i32::MAX"),
    ("chunker", "hcobs/src/stream_reader.rs", "initial_length.saturating_add(io_block_size)", "initial_length.max(io_block_size)",
     "pump: reads no further than the carried bytes when the block size is small (F1 again)"),
]


def run(units, registry, logdir):
    """-> (ok, report).  Runs every mutant of the given Verus units."""
    import verus_engine
    report = []
    ok = True
    base = common.scratch_dir("woodpile-selftest-")
    saved = common.REPO
    try:
        for i, (uname, f, old, new, what) in enumerate(MUTANTS):
            if uname not in units:
                continue
            ws = os.path.join(base, "m%d" % i)
            common.REPO = saved
            verus_engine.REPO = saved
            common.copy_workspace(ws)
            p = os.path.join(ws, f)
            src = open(p).read()
            if old not in src:
                report.append({"mutant": what, "result": "skipped: anchor text not found in the current tree"})
                continue
            open(p, "w").write(src.replace(old, new, 1))
            common.REPO = ws
            verus_engine.REPO = ws
            control = "control" in what
            try:
                saved_cex = registry.VERUS_UNITS[uname].cex_search
                registry.VERUS_UNITS[uname].cex_search = None     # verifier only: the self-test is about the contracts
                obls, _x = verus_engine._run_unit(registry.VERUS_UNITS[uname], "quick", None, os.path.join(logdir, "selftest-m%d" % i), 0)
                bad = [o.name for o in obls if o.status == VIOLATED]
                res = "rejected by " + ", ".join(bad[:3]) if bad else "VERIFIED"
            except Undecided as e:
                bad = []
                res = "undecided: " + str(e)[:200]
            finally:
                registry.VERUS_UNITS[uname].cex_search = saved_cex
            expected = (not bad) if control else bool(bad)
            if not expected:
                ok = False
            report.append({"mutant": what, "unit": uname, "result": res, "as_expected": expected})
            shutil.rmtree(ws, ignore_errors=True)
    finally:
        common.REPO = saved
        verus_engine.REPO = saved
    return ok, report
