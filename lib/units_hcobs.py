"""Verus unit: the HCOBS codec (hcobs/src/{lib,encoder,decoder}.rs).  C01 C02 C07 C09."""
from verus_engine import VFn, VGhost, VImpl, VItem, VLemma, VerusUnit

ENC = "hcobs/src/encoder.rs"
DEC = "hcobs/src/decoder.rs"
LIB = "hcobs/src/lib.rs"
R = {"N1", "N2", "N3", "N4", "N5", "N10"}

ES = "impl /^impl EncoderState/"
CLOSURE_COPY = (
    "N7", "|this, iovec, prefix| {",
    "|this: &mut Self, iovec: &mut OwningIovec<'_>, prefix: usize|\n            {",
    "closure parameter types written out (rustc checks they agree with consume_once's bound)")
CLOSURE_BORROW = (
    "N7", "|this, iovec, prefix| {",
    "|this: &mut Self, iovec: &mut OwningIovec<'slices>, prefix: usize|\n            {",
    "closure parameter types written out (rustc checks they agree with consume_once's bound)")

MEANING = ("requires wf; ensures wf' /\\ forall z. meaning(state', iovec')(z) == meaning(state, iovec)(input ++ z) "
           "/\\ only appends or backfills a pending header (frame) /\\ no panic, no overflow")


def enc_fn(name, text, props=("C01", "C02", "C07", "C09"), subs=()):
    return VFn(ENC, [ES, "fn " + name], "enc_%s.ovl" % name, list(props), text, rules=R, subs=subs,
               name="EncoderState::" + name)


STEP = ("requires input non-empty; ensures result matches one dstep of the format automaton on input[0]: Err iff the "
        "automaton fails, else the new state's view and 1 byte consumed; output appended exactly as dstep emits; no panic")
BULK = ("ensures consumes k = min(|input|, remaining) > 0 bytes, appends exactly input[..k], state = Before(term) if "
        "k == remaining else In(remaining - k); pending unchanged; no panic")
DRUN = ("ensures with (s, out) = drun(view(self), input): Err iff s = Fail; Ok(r) => view(r) = s /\\ bytes' = bytes ++ out; "
        "pending unchanged (decoder lag is zero); append-only; terminates; no panic")


RENAME_WHY = ("decoder.rs-local alias `Result<T>` renamed to `DResult<T>`: the assembled unit is a single module and lib.rs "
              "uses std's two-parameter Result")


def dec_fn(imp, fn, ovl, name, text, props=("C01", "C07", "C09")):
    return VFn(DEC, [imp, "fn " + fn], ovl, list(props), text, rules=R, name=name,
               subs=[("N9", "Result<", "DResult<", RENAME_WHY)])


EI = "impl /^impl<'this> Encoder<'this>/"
DI = "impl /^impl<'this> Decoder<'this>/"
WSEM = ("requires inv; ensures inv' /\\ forall z. sem'(z) == sem(data ++ z) /\\ drained-or-drainable prefix kept (frame) /\\ "
        "other placeholders untouched; no panic")
UNSAFE_COMPONENTS = ("N9", "unsafe { data.components() }", "data.components()",
                     "unsafe block around a call to an assumed-contract function removed (AnchoredSlice::components is "
                     "external_body in the unit; `unsafe` has no operational content)")


def w_fn(imp, fn, text, props=("C01", "C02", "C07", "C09"), subs=(), prefix="w_enc_", cls="Encoder"):
    return VFn(LIB, [imp, "fn " + fn], "%s%s.ovl" % (prefix, fn), list(props), text, rules=R, subs=subs,
               name="%s::%s" % (cls, fn))


WDEC = ("ensures with (s, out) = drun(view(state), data) under the production limits 252/64008: Err iff s = Fail; "
        "Ok => view(state') = s /\\ bytes' = bytes ++ out; pending unchanged; append-only; no panic")


def d_fn(fn, text, subs=(), props=("C01", "C07", "C09")):
    return w_fn(DI, fn, text, props=props, subs=subs, prefix="w_dec_", cls="Decoder")


PROD = VItem(LIB, ["const PROD_PARAMS"], exec_const_ensures="PROD_PARAMS.max_initial_size@ == 252, "
             "PROD_PARAMS.max_subsequent_size@ == 64008, params_ok(PROD_PARAMS)")
PROD.props = ["C01", "C02", "C07", "C09"]

FIND_STUFF = VFn(LIB, ["fn find_stuff_sequence"], "find_stuff_sequence.ovl", ["C01", "C02", "C07"],
                 "Some(i) <=> i is the first index with bytes[i..i+2] == FE FD; None <=> FE FD occurs nowhere; terminates; no panic "
                 "(loop invariant: no FE FD starts before idx)", rules={"N5", "N16"}, name="find_stuff_sequence")

HCOBS = VerusUnit(
    name="hcobs",
    uses=["use std::num::NonZeroUsize;", "use std::num::NonZeroU32;", "use std::num::{NonZeroU8, NonZeroU16, NonZeroU64};", "use std::io::Read;"],
    segments=[
        VItem(LIB, ["const RADIX"]),
        VItem(LIB, ["const STUFF_SEQUENCE"]),
        VGhost("spec_enc.rs"),
        VGhost("assumed_iovec.rs"),
        FIND_STUFF,
        VGhost("frame_spec.rs"),
        VItem(LIB, ["struct Parameters"]),
        VGhost("params_spec.rs"),
        PROD,
        VItem(ENC, ["struct EncoderState"]),
        VGhost("enc_state_spec.rs"),
        VImpl("impl EncoderState", [
            enc_fn("new", "requires params_ok; ensures wf, first chunk, tail = empty, header placeholder registered "
                          "at the end of the existing bytes"),
            enc_fn("new_subsequent", "ensures wf, non-first chunk, tail = empty, previous bytes are a prefix"),
            enc_fn("encode_header", "requires backref pending, size < 253 (1-byte) / < 253^2; ensures the placeholder "
                                    "is backfilled with the little-endian radix-253 header, nothing else changes"),
            enc_fn("write", "requires cur + |p| <= max; ensures bytes' = bytes ++ p, cur' = cur + |p|, rest unchanged"),
            enc_fn("copy", "requires cur + |p| <= max; ensures bytes' = bytes ++ p, cur' = cur + |p|, rest unchanged"),
            enc_fn("write_partial_stuff_sequence", "ensures bytes' = bytes ++ [FE], cur' = cur + 1"),
            enc_fn("consume_once", "requires wf, input non-empty, writer_ok; ensures wf', consumed <= |input|, progress "
                                   "(consumed > 0 or the buffered FE was flushed), forall z. meaning'(z) == "
                                   "meaning(input[..consumed] ++ z)"),
            enc_fn("encode_copy", MEANING, subs=[CLOSURE_COPY]),
            enc_fn("encode_borrow", MEANING, subs=[CLOSURE_BORROW]),
            enc_fn("terminate", "requires wf; ensures bytes' == meaning(state, iovec)(empty) = closed output ++ header ++ "
                                "open chunk, header placeholder no longer pending, frame"),
        ]),
        # ---------------- decoder ----------------
        VGhost("dec_spec.rs"),
        VItem(DEC, ["struct InitialState"]),
        VItem(DEC, ["struct BeforeChunk"]),
        VItem(DEC, ["struct MidHeader"]),
        VItem(DEC, ["struct InChunk"]),
        VItem(DEC, ["enum DecoderState"]),
        VItem(DEC, ["enum DecodingError"]),
        VItem(DEC, ["type Result"], subs=[("N9", "type Result<T>", "type DResult<T>", RENAME_WHY)]),
        VGhost("dec_state_spec.rs"),
        VImpl("impl InitialState", [dec_fn("impl /^impl InitialState/", "decode", "dec_initial_decode.ovl", "InitialState::decode", STEP)]),
        VImpl("impl BeforeChunk", [dec_fn("impl /^impl BeforeChunk/", "decode", "dec_before_decode.ovl", "BeforeChunk::decode", STEP)]),
        VImpl("impl MidHeader", [dec_fn("impl /^impl MidHeader/", "decode", "dec_mid_decode.ovl", "MidHeader::decode", STEP)]),
        VImpl("impl InChunk", [
            dec_fn("impl /^impl InChunk/", "update", "dec_inchunk_update.ovl", "InChunk::update",
                   "requires consumed <= remaining; ensures state = Before(term) if consumed == remaining else In(remaining - consumed); no panic"),
            dec_fn("impl /^impl InChunk/", "decode_borrow", "dec_inchunk_decode_borrow.ovl", "InChunk::decode_borrow", BULK),
            dec_fn("impl /^impl InChunk/", "decode_copy", "dec_inchunk_decode_copy.ovl", "InChunk::decode_copy", BULK),
        ]),
        VImpl("impl DecoderState", [
            dec_fn("impl /^impl DecoderState/", "new", "dec_new.ovl", "DecoderState::new", "ensures view = Initial"),
            dec_fn("impl /^impl DecoderState/", "terminate", "dec_terminate.ovl", "DecoderState::terminate",
                   "ensures Ok <=> view == Before(insert = true)  (the stream ended on a short chunk)"),
            dec_fn("impl /^impl DecoderState/", "decode_borrow", "dec_decode_borrow.ovl", "DecoderState::decode_borrow", DRUN),
            dec_fn("impl /^impl DecoderState/", "decode_copy", "dec_decode_copy.ovl", "DecoderState::decode_copy", DRUN),
        ]),
        # ---------------- public wrappers (hcobs/src/lib.rs) ----------------
        VImpl("impl Default for EncoderState", [VFn(ENC, ["impl /^impl Default for EncoderState/", "fn default"], "enc_default.ovl",
              ["C01"], "placeholder state used by the wrappers' mem::swap dance; no panic", rules=R, name="EncoderState::default")]),
        VImpl("impl Default for DecoderState", [VFn(DEC, ["impl /^impl Default for DecoderState/", "fn default"], "dec_default.ovl",
              ["C01"], "placeholder state; no panic", rules=R, name="DecoderState::default")]),
        VItem(LIB, ["struct Encoder"]),
        VItem(LIB, ["struct Decoder"]),
        VGhost("wrapper_spec.rs"),
        VImpl("impl<'this> Encoder<'this>", [
            w_fn(EI, "new_from_iovec", "ensures inv, forall z. sem(z) == iovec.bytes ++ enc_prod(z), other placeholders untouched, frame"),
            w_fn(EI, "new", "ensures inv, forall z. sem(z) == enc_prod(z), nothing else pending"),
            w_fn(EI, "consumer", "obtaining the consumer changes neither the encoder state nor the logical stream (any drain "
                                 "schedule leaves the final output unchanged)", props=("C01", "C02", "C09")),
            w_fn(EI, "encode", WSEM),
            w_fn(EI, "encode_copy", WSEM),
            w_fn(EI, "encode_anchored", WSEM, subs=[UNSAFE_COMPONENTS]),
            w_fn(EI, "read_n", "ensures the encoder's output, state and pending set are untouched whatever the read returns; "
                               "Ok(slice) => |slice| <= count; no panic (the internal assert is discharged from the assumed "
                               "ByteArena::read_n contract)", props=("C17",)),
            w_fn(EI, "encode_read", "Err => output unaffected (sem unchanged); Ok(n) => n <= count and exactly the n bytes read "
                                    "were encoded (exists s, |s| = n, sem'(z) == sem(s ++ z))", props=("C17",)),
            w_fn(EI, "finish", "requires inv; ensures returned bytes == sem(empty) = closed output ++ canonical encoding of the open "
                               "chunk; the encoder's placeholder is filled; frame"),
        ]),
        VImpl("impl<'this> Decoder<'this>", [
            d_fn("new_from_iovec", "ensures view = Initial; iovec moved in unchanged"),
            d_fn("new", "ensures view = Initial, empty output"),
            d_fn("consumer", "obtaining the consumer changes neither the decoder state nor the logical stream", props=("C01", "C09")),
            d_fn("take_iovec", "returns the output unchanged", props=("C01",)),
            d_fn("decode", WDEC),
            d_fn("decode_copy", WDEC),
            d_fn("decode_anchored", WDEC, subs=[UNSAFE_COMPONENTS]),
            d_fn("read_n", "ensures decoder state, output and pending set untouched; Ok(slice) => |slice| <= count; no panic",
                 props=("C17",)),
            d_fn("decode_read", "output only grows (prefix kept), pending untouched; Ok(n) => n <= count and exactly the n bytes "
                                "read were decoded; a failed read decodes nothing", props=("C17",),
                 subs=[("N9", "std::io::Error::other(e)", "io_error_other_dec(e)",
                        "std::io::Error::other (generic over Into<Box<dyn Error>>) -> monomorphic assumed alias")]),
            d_fn("finish", "ensures Ok(iovec) <=> view == Before(insert = true); the output is returned unchanged; no panic"),
        ]),
        VGhost("dec_grammar.rs"),
        VGhost("lemmas_enc.rs"),
        VGhost("theorems.rs"),
    ],
    lemmas=[
        VLemma("theorem_c01_round_trip", ["C01"], "forall x. drun(Initial, enc(x)) == (Before(insert=true), x): decoding the "
               "canonical encoding yields x and ends in the accepting state (all x, production limits)"),
        VLemma("lemma_round_trip", ["C01"], "round trip for all limits 0 < m0 <= 252, 0 < m1 <= 64008, generalised over chunk position"),
        VLemma("theorem_split_compose", ["C01", "C02"], "meaning postconditions compose: feeding a then b == feeding a ++ b"),
        VLemma("theorem_two_pieces", ["C01", "C02"], "fresh encoder, two pieces by any methods, finish => enc(a ++ b)"),
        VLemma("theorem_decode_split", ["C01", "C07"], "drun(s, a ++ b) == drun(drun(s, a), b): decoder result independent of segmentation"),
        VLemma("lemma_drun_concat", ["C01", "C07"], "concatenation lemma of the decoder automaton, all limits"),
        VLemma("theorem_c07_decoder_accepts_exactly_the_format", ["C07"], "drun from Initial ends in the accepting state exactly on the "
               "strings accepted by the declarative chunk grammar `parse` (well-formed chunk sequences ending on a short chunk), "
               "with the grammar's payload; all byte strings"),
        VLemma("lemma_dec_equiv", ["C07"], "automaton == grammar, all admissible limits, any chunk position"),
        VLemma("theorem_c02_no_stuff", ["C02"], "forall x. no FE FD at any position of enc(x)"),
        VLemma("lemma_enc_no_stuff", ["C02"], "no_stuff(enc(x)) for all admissible limits; encoding starts with a byte < FD"),
        VLemma("theorem_c02_length", ["C02"], "forall x. |enc(x)| <= |x| + 1 + 2 * ceil(|x| / 64008)"),
        VLemma("lemma_enc_len", ["C02"], "|enc(x,max,m1,first)| <= |x| + hl(first) + 2 * fc(|x|,max,m1), all 0 < max <= m1"),
        VLemma("theorem_c09_encoder_lag", ["C09"], "wf => |bytes| - header_start <= 2 + 64008, and the prefix before the header is stable"),
        VLemma("theorem_c09_decoder_lag", ["C09"], "decoder registers no placeholder => everything produced is stable (lag 0)"),
        VLemma("lemma_spk_trans", ["C09"], "stable-prefix frame is transitive (any number of calls / drains in between)"),
        VLemma("lemma_spk_backfill", ["C09"], "backfilling a pending placeholder keeps every stable prefix"),
    ],
    rlimit=50,
    cex_search={"crate": "hcobs", "attach_to": "hcobs/src/lib.rs", "src": "cex_search.rs", "filter": "verif_cex"},
)
