"""Verus unit: the HCOBS codec (hcobs/src/{lib,encoder,decoder}.rs).  C01 C02 C07 C09."""
from verus_engine import VFn, VGhost, VImpl, VItem, VLemma, VerusUnit

ENC = "hcobs/src/encoder.rs"
DEC = "hcobs/src/decoder.rs"
LIB = "hcobs/src/lib.rs"
R = {"N1", "N2", "N3", "N4", "N5", "N10"}

ES = "impl /^impl EncoderState/"
CLOSURE_COPY = (
    "N7", "|this, iovec, prefix| {",
    "|this: &mut Self, iovec: &mut OwningIovec<'_>, prefix: usize|\n            {",
    "closure parameter types written out (rustc checks they agree with consume_once's bound)")
CLOSURE_BORROW = (
    "N7", "|this, iovec, prefix| {",
    "|this: &mut Self, iovec: &mut OwningIovec<'slices>, prefix: usize|\n            {",
    "closure parameter types written out (rustc checks they agree with consume_once's bound)")

MEANING = ("requires wf; ensures wf' /\\ forall z. meaning(state', iovec')(z) == meaning(state, iovec)(input ++ z) "
           "/\\ only appends or backfills a pending header (frame) /\\ no panic, no overflow")


def enc_fn(name, text, props=("C01", "C02", "C07", "C09"), subs=()):
    return VFn(ENC, [ES, "fn " + name], "enc_%s.ovl" % name, list(props), text, rules=R, subs=subs,
               name="EncoderState::" + name)


HCOBS = VerusUnit(
    name="hcobs",
    uses=["use std::num::NonZeroUsize;", "use std::num::NonZeroU32;"],
    segments=[
        VItem(LIB, ["const RADIX"]),
        VItem(LIB, ["const STUFF_SEQUENCE"]),
        VGhost("spec_enc.rs"),
        VGhost("assumed_iovec.rs"),
        VGhost("frame_spec.rs"),
        VItem(LIB, ["struct Parameters"]),
        VGhost("params_spec.rs"),
        VItem(LIB, ["const PROD_PARAMS"], exec_const_ensures="PROD_PARAMS.max_initial_size@ == 252, "
              "PROD_PARAMS.max_subsequent_size@ == 64008, params_ok(PROD_PARAMS)"),
        VItem(ENC, ["struct EncoderState"]),
        VGhost("enc_state_spec.rs"),
        VImpl("impl EncoderState", [
            enc_fn("new", "requires params_ok; ensures wf, first chunk, tail = empty, header placeholder registered "
                          "at the end of the existing bytes"),
            enc_fn("new_subsequent", "ensures wf, non-first chunk, tail = empty, previous bytes are a prefix"),
            enc_fn("encode_header", "requires backref pending, size < 253 (1-byte) / < 253^2; ensures the placeholder "
                                    "is backfilled with the little-endian radix-253 header, nothing else changes"),
            enc_fn("write", "requires cur + |p| <= max; ensures bytes' = bytes ++ p, cur' = cur + |p|, rest unchanged"),
            enc_fn("copy", "requires cur + |p| <= max; ensures bytes' = bytes ++ p, cur' = cur + |p|, rest unchanged"),
            enc_fn("write_partial_stuff_sequence", "ensures bytes' = bytes ++ [FE], cur' = cur + 1"),
            enc_fn("consume_once", "requires wf, input non-empty, writer_ok; ensures wf', consumed <= |input|, progress "
                                   "(consumed > 0 or the buffered FE was flushed), forall z. meaning'(z) == "
                                   "meaning(input[..consumed] ++ z)"),
            enc_fn("encode_copy", MEANING, subs=[CLOSURE_COPY]),
        ]),
    ],
    lemmas=[],
    rlimit=50,
)
