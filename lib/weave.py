"""Weaving contract overlays into freshly extracted, normalised real code.

Overlay file format (one per function, /verif/vx/<unit>/overlays/<name>.ovl):
    lines starting with '+'  ghost lines (requires/ensures/invariant/decreases clauses, proof blocks,
                             `let ghost`, proof asserts, verifier attributes, closure specs)
    every other line         an exec line of the function *as last seen*: used ONLY as an anchor to
                             position the ghost blocks; never emitted.
The emitted text is: the real (current) normalised lines, with each ghost block placed in front of
the image of the exec line it preceded in the overlay.
"""
import difflib
import re

from common import Undecided

GHOST_STARTERS = (
    "requires", "ensures", "invariant", "invariant_except_break", "decreases", "recommends", "returns",
    "proof {", "proof{", "let ghost", "let tracked", "assert(", "assert (", "assert forall", "#[verifier::",
    "#![verifier::", "broadcast use", "opens_invariants", "no_unwind", "}", "//", "reveal(", "assume_specification",
    "by (", "by(", "spec fn", "proof fn", "uninterp spec fn", "pub open spec fn", "pub closed spec fn",
)


def is_noise(line):
    s = line.strip()
    return s == "" or s.startswith("//")


def parse_overlay(text):
    """-> (entries, tail_block): entries = [(ghost_lines_before, exec_line)], tail = ghost lines after the last exec line"""
    entries = []
    cur = []
    for raw in text.split("\n"):
        if raw.startswith("+"):
            cur.append(raw[1:])
        elif is_noise(raw):
            continue
        else:
            entries.append((cur, raw))
            cur = []
    return entries, cur


def lint_ghost(entries, tail, name):
    """Ghost blocks may only contain ghost syntax.  (Verus itself rejects exec effects inside proof
    blocks / ghost lets; this lint covers the rest: a '+' line must not smuggle in an exec statement.)"""
    problems = []
    for block, _ in entries + [(tail, "")]:
        depth = 0
        for l in block:
            s = l.strip()
            if not s:
                continue
            if depth == 0 and not s.startswith(GHOST_STARTERS) and not _is_clause_continuation(s):
                problems.append(s)
            depth += s.count("{") + s.count("(") + s.count("[") - s.count("}") - s.count(")") - s.count("]")
            depth = max(depth, 0)
    if problems:
        raise Undecided("overlay %s: ghost block contains a line that is not ghost syntax: %r" % (name, problems[:3]))


def _is_clause_continuation(s):
    # continuation lines of a requires/ensures/invariant list: pure expressions ending with ',' or part of one
    return not re.match(r"(let\s+(?!ghost|tracked)|return\b|[A-Za-z_][\w.]*\s*(=|\+=|-=)[^=]|if\b|while\b|for\b|loop\b|match\b)", s) \
        and not s.endswith(";")


def weave(real_text, overlay_text, name):
    """Returns (woven_text, info).  Raises Undecided when a ghost block has lost its anchor."""
    entries, tail = parse_overlay(overlay_text)
    lint_ghost(entries, tail, name)
    real_lines = [l for l in real_text.split("\n") if not is_noise(l)]
    A = [l.strip() for l in real_lines]
    B = [e[1].strip() for e in entries]
    sm = difflib.SequenceMatcher(None, B, A, autojunk=False)
    b2a = {}
    for blk in sm.get_matching_blocks():
        for k in range(blk.size):
            b2a[blk.a + k] = blk.b + k
    inserts = {}  # index in A (insert before) -> list of ghost lines

    def put(pos, block):
        inserts.setdefault(pos, []).extend(block)

    lost = []
    for j, (block, _ex) in enumerate(entries):
        if not block:
            continue
        if j in b2a:
            put(b2a[j], block)
        elif j - 1 in b2a:
            put(b2a[j - 1] + 1, block)
        elif j == 0:
            put(0, block)
        else:
            # walk back to the closest matched predecessor, but only across at most 2 changed lines
            k = j - 1
            while k >= 0 and k not in b2a and j - k <= 2:
                k -= 1
            if k >= 0 and k in b2a:
                put(min(len(A), b2a[k] + (j - k)), block)
            else:
                lost.append((j, _ex.strip()))
    if tail:
        put(len(A), tail)
    if lost:
        raise Undecided("overlay %s: ghost block lost its anchor (function restructured?): %r" % (name, lost[:3]))
    out = []
    for i, l in enumerate(real_lines):
        out.extend(inserts.get(i, []))
        out.append(l)
    out.extend(inserts.get(len(A), []))
    drift = (len(B) - len(b2a)) + (len(A) - len(b2a))
    ghost_lines = sum(len(b) for b, _ in entries) + len(tail)
    # erase check: dropping what we inserted must give back the real lines
    erased = [l for l in out if l not in _flatten(inserts)] if False else None
    return "\n".join(out), {"drift_lines": drift, "ghost_lines": ghost_lines, "exec_lines": len(A)}


def _flatten(d):
    return [x for v in d.values() for x in v]


def skeleton(real_text):
    """Initial overlay for a function: its exec lines, no ghost lines yet."""
    return "\n".join(l for l in real_text.split("\n") if not is_noise(l)) + "\n"
