"""Engine A: Verus on mechanically extracted real functions.

Every run: extract the named items from /repo's working tree, apply the declared N-rules,
weave the committed contract overlays around the *current* code, assemble one file per unit
with the hand-written ghost prelude, run Verus, and map every diagnostic back to the function
(= obligation group) that owns the line.
"""
import concurrent.futures as cf
import json
import os
import re
import time

import normalise
import rustlex
import weave
from common import (DISCHARGED, REPO, UNDECIDED, VIOLATED, VERIF, Obligation, Undecided, run, scratch_dir, sha256)

VERUS_BACKEND = "verus-0.2026.09.13/z3"
VX = os.path.join(VERIF, "vx")

ALL_RULES = {"N1", "N2", "N3", "N4", "N5"}


class VGhost:
    """Hand-written ghost text (spec fns, lemmas, assumed contracts)."""

    def __init__(self, path):
        self.path = path


class VItem:
    """A non-function item (struct / enum / const / type) copied verbatim from /repo."""

    def __init__(self, file, path, subs=(), keep_derives=("Clone", "Copy"), exec_const_ensures=None):
        self.exec_const_ensures = exec_const_ensures   # N11: `const X: T = E;` -> `exec const X: T ensures .. { E }`
        self.file = file
        self.path = path
        self.subs = list(subs)     # [(rule, old, new, why)]
        self.keep_derives = keep_derives


class VFn:
    """A real function put under contract."""

    def __init__(self, file, path, overlay, props, text, rules=ALL_RULES, subs=(), kind="proof", name=None):
        self.file = file
        self.path = path
        self.overlay = overlay      # file name under vx/<unit>/overlays/
        self.props = props
        self.text = text            # human-readable contract summary (goes to evidence)
        self.rules = set(rules)
        self.subs = list(subs)
        self.kind = kind
        self.fname = path[-1].split()[-1]
        self.name = name            # display name, e.g. EncoderState::consume_once


class VTrait:
    """A trait declaration copied from /repo with contract clauses woven in front of each method's `;`."""

    def __init__(self, file, path, overlay, props=(), text=""):
        self.file = file
        self.path = path
        self.overlay = overlay
        self.props = list(props)
        self.text = text


class VImpl:
    def __init__(self, header, fns, inner_items=(), ghost_items=()):
        self.ghost_items = list(ghost_items)   # ghost lines emitted at the top of the impl block (spec fns only)
        self.header = header        # e.g. "impl EncoderState"
        self.fns = fns
        self.inner_items = list(inner_items)   # [(file, path)] verbatim inner items (e.g. `type Target = ..;`)


class VLemma:
    """A proof fn in a ghost file that carries a property (e.g. the round-trip lemma)."""

    def __init__(self, fname, props, text):
        self.fname = fname
        self.props = props
        self.text = text


class VerusUnit:
    def __init__(self, name, uses, segments, lemmas=(), rlimit=None, extra_args=(), cex_search=None, keep_visibility=False):
        self.extra_configs = []    # additional rustc cfg passes, e.g. [["-C", "debug-assertions=off"]]
        self.keep_visibility = keep_visibility   # units with trait impls need `pub` kept (trait methods are public)
        # cex_search: {"crate":..., "attach_to": file in /repo, "src": file under vx/<unit>/, "filter": test name prefix}
        self.cex_search = cex_search
        self.name = name
        self.uses = uses
        self.segments = segments
        self.lemmas = list(lemmas)
        self.rlimit = rlimit
        self.extra_args = list(extra_args)


SEMANTIC = [
    r"postcondition not satisfied", r"precondition not satisfied", r"assertion failed", r"assertion not satisfied",
    r"invariant not satisfied", r"possible arithmetic (under|over)flow", r"possible division by zero",
    r"decreases not satisfied", r"could not prove termination", r"index out of bounds", r"possible bit shift",
    r"unwrap.*precondition", r"failed precondition", r"loop invariant not preserved", r"cannot show invariant",
    r"recommendation not met", r"unreachable", r"possible .*overflow", r"spec.* not satisfied",
]
TOOL_LIMIT = [r"[Rr]esource limit", r"rlimit", r"not supported", r"unsupported", r"timed out", r"internal error",
              r"The verifier does not yet support", r"panicked"]


def _read(path):
    with open(path) as f:
        return f.read()


def _extract(file, path):
    p = os.path.join(REPO, file)
    try:
        src = _read(p)
    except OSError as e:
        raise Undecided("source file missing: %s (%s)" % (file, e))
    try:
        it = rustlex.find_item(src, path)
    except (KeyError, rustlex.LexError) as e:
        raise Undecided("lost item %s in %s: %s" % (path, file, e))
    return src, it


def assemble(unit, canary=False):
    """-> (text, fnspans, info).  fnspans: [(first_line, last_line, VFn)] in the assembled file."""
    applied = normalise.Applied()
    out = ["// ASSEMBLED BY /verif/lib/verus_engine.py -- do not edit; regenerated on every run",
           "#![allow(unused_imports, unused_variables, unused_mut, dead_code, unused_parens, unused_assignments)]",
           "use vstd::prelude::*;"] + list(unit.uses) + ["verus! {", ""]
    spans = []
    info = {"functions": [], "drift_lines": 0, "ghost_files": [], "items": []}

    def emit(text):
        out.extend(text.split("\n"))

    def do_fn(vf, indent="    "):
        src, it = _extract(vf.file, vf.path)
        raw = rustlex.item_text(src, it)
        where = "%s:%s" % (vf.file, vf.fname)
        norm = normalise.normalise_fn(raw, where, applied, vf.rules, vf.subs, keep_visibility=unit.keep_visibility)
        ovl_path = os.path.join(VX, getattr(vf, "unit_dir", None) or unit.name, "overlays", vf.overlay)
        ovl = _read(ovl_path)
        if canary:
            norm = _insert_canary(norm)
        woven, winfo = weave.weave(norm, ovl, vf.overlay)
        first = sum(x.count("\n") + 1 for x in out) + 1
        emit(woven)
        last = sum(x.count("\n") + 1 for x in out)
        spans.append((first, last, vf))
        line0 = src[:it.start].count("\n") + 1
        info["functions"].append({
            "function": vf.name or vf.fname, "file": vf.file, "lines": [line0, line0 + raw.count("\n")],
            "sha256": sha256(raw), "overlay": vf.overlay, "drift_lines": winfo["drift_lines"],
            "ghost_lines": winfo["ghost_lines"], "exec_lines": winfo["exec_lines"]})
        info["drift_lines"] += winfo["drift_lines"]
        out.append("")

    for seg in unit.segments:
        if isinstance(seg, VGhost):
            p = os.path.join(VX, getattr(seg, "unit_dir", None) or unit.name, seg.path)
            text = _read(p)
            lint_ghost_file(text, seg.path)
            out.append("// ---- ghost: %s" % seg.path)
            emit(text)
            info["ghost_files"].append({"file": seg.path, "sha256": sha256(text)})
        elif isinstance(seg, VItem):
            src, it = _extract(seg.file, seg.path)
            raw = rustlex.item_text(src, it)
            attrs = rustlex.leading_attrs(src, it)
            der = re.findall(r"#\[derive\(([^)]*)\)\]", attrs)
            keep = [d.strip() for ds in der for d in ds.split(",") if d.strip() in seg.keep_derives]
            text = raw if unit.keep_visibility else normalise.strip_visibility(raw)
            if "NonZeroUsize::new_unchecked" in text:
                text = normalise.n6_nonzero_unchecked(text, applied, "%s:%s" % (seg.file, seg.path[-1]))
            for (rule, old, new, why) in seg.subs:
                if old in text:
                    text = text.replace(old, new)
                    applied.add(rule, "%s:%s" % (seg.file, seg.path[-1]), why)
            if seg.exec_const_ensures:
                m = re.match(r"const\s+(\w+)\s*:\s*([^=]+?)\s*=\s*(.*);\s*$", text, re.S)
                if not m:
                    raise Undecided("N11: %s is not a `const X: T = E;` item any more" % seg.path[-1])
                text = "exec const %s: %s\n    ensures %s\n{\n    %s\n}" % (m.group(1), m.group(2), seg.exec_const_ensures, m.group(3))
                applied.add("N11", "%s:%s" % (seg.file, seg.path[-1]), "const item -> exec const with ensures (initialiser verified)")
            out.append("// ---- real item: %s %s" % (seg.file, " / ".join(seg.path)))
            if keep:
                out.append("#[derive(%s)]" % ", ".join(keep))
            first = sum(x.count("\n") + 1 for x in out) + 1
            emit(text)
            if seg.exec_const_ensures:
                pseudo = VFn(seg.file, seg.path, None, getattr(seg, "props", []) or ["C07"],
                             "the constant's initialiser satisfies: " + seg.exec_const_ensures, name=seg.path[-1].split()[-1])
                pseudo.no_canary = True
                spans.append((first, sum(x.count("\n") + 1 for x in out), pseudo))
            info["items"].append({"item": " / ".join(seg.path), "file": seg.file, "sha256": sha256(raw)})
        elif isinstance(seg, VTrait):
            src, it = _extract(seg.file, seg.path)
            raw = rustlex.item_text(src, it)
            text = raw if unit.keep_visibility else normalise.strip_visibility(raw)
            for (rule, old, new, why) in getattr(seg, "subs", ()):
                if old not in text:
                    raise Undecided("%s: declared substitution no longer applies in trait %s" % (rule, seg.path[-1]))
                text = text.replace(old, new)
                applied.add(rule, "%s:%s" % (seg.file, seg.path[-1]), why)
            # N0: the `;` that ends a method declaration moves to its own line
            # N5: return values of method declarations get a name
            def _decl(m):
                ret = ""
                if m.group(3):
                    ty = m.group(3).strip()[2:].strip()
                    ret = " -> (ret: %s)" % ty
                return "%s%s%s\n%s;" % (m.group(1), m.group(2), ret, m.group(1))
            text = re.sub(r"(?m)^(\s*)(fn [^;{]*\))\s*(->[^;{]*)?;\s*$", _decl, text)
            ovl = _read(os.path.join(VX, getattr(seg, "unit_dir", None) or unit.name, "overlays", seg.overlay))
            woven, winfo = weave.weave(text, ovl, seg.overlay)
            out.append("// ---- real item (trait, contract clauses woven): %s %s" % (seg.file, " / ".join(seg.path)))
            emit(woven)
            info["items"].append({"item": " / ".join(seg.path), "file": seg.file, "sha256": sha256(raw),
                                  "drift_lines": winfo["drift_lines"]})
            info["drift_lines"] += winfo["drift_lines"]
        elif isinstance(seg, VImpl):
            out.append("// ---- real code: %s" % seg.header.split("\n")[0])
            out.append(seg.header + " {")
            for g in seg.ghost_items:
                if not re.match(r"\s*(pub\s+)?(open\s+|closed\s+)?spec fn ", g):
                    raise Undecided("VImpl ghost item is not a spec fn: %r" % g)
                out.append("    " + g)
            for (ifile, ipath) in seg.inner_items:
                isrc, iit = _extract(ifile, ipath)
                emit(rustlex.item_text(isrc, iit))
                info["items"].append({"item": " / ".join(ipath), "file": ifile, "sha256": sha256(rustlex.item_text(isrc, iit))})
            for vf in seg.fns:
                do_fn(vf)
            out.append("}")
        elif isinstance(seg, VFn):
            out.append("// ---- real code: free fn")
            do_fn(seg, indent="")
        out.append("")
    out += ["} // verus!", "fn main() {}", ""]
    info["n_rules_applied"] = applied.log
    return "\n".join(out), spans, info


def _insert_canary(woven):
    """Insert `proof { assert(false); }` as the first statement of the fn body (vacuity guard:
    a contradictory precondition would let it pass)."""
    lines = woven.split("\n")
    for i, l in enumerate(lines):
        if l.strip() == "{":     # N0 put the body's opening brace on its own line
            lines.insert(i + 1, "        proof { assert(false); } // CANARY")
            return "\n".join(lines)
    raise Undecided("canary: no body-opening brace line found")


def lint_ghost_file(text, name):
    """Hand-written files may contain only spec/proof items, verified exec helpers listed below, and
    external_body items (assumed contracts; these are collected for the assumption ledger)."""
    masked = rustlex.mask(text)
    for m in re.finditer(r"(?m)^[ \t]*((?:pub(?:\([^)]*\))?\s+)?(?:open\s+|closed\s+|uninterp\s+|broadcast\s+)*)(spec\s+|proof\s+|exec\s+)?fn\s+(\w+)", masked):
        mode = (m.group(2) or "").strip()
        if mode in ("spec", "proof"):
            continue
        # exec fn in a ghost file: must be an assumed contract or a whitelisted helper
        before = masked[max(0, m.start() - 200):m.start()]
        ctx = text[max(0, m.start() - 400):m.start()]
        if "external_body" in ctx[-200:] or "external_trait_specification" in ctx or m.group(3) in ("strict_or", "strict_and", "nz"):
            continue
        raise Undecided("ghost file %s defines exec fn %s without external_body (hand-written exec code is not allowed)"
                        % (name, m.group(3)))
    for bad in ("assume(", "admit("):
        if bad in masked:
            raise Undecided("ghost file %s uses %s" % (name, bad))


def scan_assumptions(text):
    """Mechanical scan of the assembled text for everything that is assumed rather than proved."""
    found = []
    lines = text.split("\n")
    for i, l in enumerate(lines):
        if l.lstrip().startswith("//"):
            continue
        m = re.search(r"assume_specification\s*(?:<[^\[]*>)?\s*\[\s*(.+?)\s*\]\s*\(", l)
        if m:
            found.append("assume_specification " + re.sub(r"\s+", " ", m.group(1)))
            continue
        if "external_trait_specification" in l:
            for k in range(i, min(i + 4, len(lines))):
                t = re.search(r"\btrait\s+(\w+)", lines[k])
                if t:
                    found.append("external trait specification " + t.group(1))
                    break
            continue
        if "external_body" in l or "external_type_specification" in l or "external_fn_specification" in l \
                or "uninterp spec fn" in l:
            # name = this or one of the next lines with fn/struct
            for k in range(i, min(i + 6, len(lines))):
                m = re.search(r"\b(fn|struct|enum)\s+(\w+)", lines[k])
                if m:
                    kind = "uninterpreted spec fn" if "uninterp spec fn" in lines[k] else m.group(1)
                    found.append("%s %s" % (kind, m.group(2)))
                    break
    return sorted(set(found))


def _run_verus(path, unit, logbase, rustc_args=()):
    cmd = ["verus", path, "--output-json", "--time", "--multiple-errors", "5"]
    if unit.rlimit:
        cmd += ["--rlimit", str(unit.rlimit)]
    cmd += unit.extra_args + ["--", "--error-format=json"] + list(rustc_args)
    rc, out, wall = run(cmd, cwd=os.path.dirname(path), timeout=1500, log=logbase + ".log")
    # stdout (json) and stderr (json diagnostics, one per line) are interleaved in `out`
    diags = []
    res = None
    depth_buf = []
    for line in out.split("\n"):
        s = line.strip()
        if s.startswith('{"$message_type"'):
            try:
                diags.append(json.loads(s))
            except ValueError:
                pass
    m = re.search(r"^\{\n.*?^\}", out, re.S | re.M)
    if m:
        try:
            res = json.loads(m.group(0))
        except ValueError:
            res = None
    return rc, out, wall, diags, res


def run_unit(unit, tier, want_props=None, logdir=None, seed=0):
    """Wrapper: if the verifier cannot decide the unit at all (dialect error after an edit, lost item, lost
    anchor, rlimit) and the unit has a bounded counterexample search, run the search.  A concrete failing input
    on the real code is a violation in its own right (obligation kind 'bounded'); no hit leaves it undecided."""
    try:
        return _run_unit(unit, tier, want_props, logdir, seed)
    except Undecided as e:
        if not unit.cex_search:
            raise
        os.makedirs(logdir, exist_ok=True)
        info = cex_search(unit, logdir)
        if not info.get("found"):
            raise
        o = Obligation("verus:%s:bounded-search" % unit.name, "public API of the %s unit" % unit.name,
                       "bounded search with executable spec twins (vx/%s/%s) -- stand-in used because the verifier "
                       "could not process the unit: %s" % (unit.name, unit.cex_search["src"], str(e)[:300]),
                       sorted(set(p for seg in unit.segments if isinstance(seg, VImpl) for vf in seg.fns for p in vf.props)),
                       "cargo test (bounded search)", kind="bounded",
                       bound="see vx/%s/%s" % (unit.name, unit.cex_search["src"]))
        o.status = VIOLATED
        o.detail = "verifier undecided (%s); failing inputs on the real code:\n%s" % (str(e)[:200], "\n".join(info["found"][:5]))
        write_replay(unit, o, info)
        obls = [o] if (want_props is None or set(o.props) & set(want_props)) else []
        return obls, {"verus_unit": unit.name, "verifier_undecided": str(e)[:500]}


def _run_unit(unit, tier, want_props=None, logdir=None, seed=0):
    t0 = time.time()
    wd = scratch_dir("woodpile-verus-")
    logdir = logdir or wd
    os.makedirs(logdir, exist_ok=True)
    text, spans, info = assemble(unit)
    ctext, cspans, _ = assemble(unit, canary=True)
    main_rs = os.path.join(wd, "unit_%s.rs" % unit.name)
    can_rs = os.path.join(wd, "canary_%s.rs" % unit.name)
    open(main_rs, "w").write(text)
    open(can_rs, "w").write(ctext)
    open(os.path.join(logdir, "assembled_%s.rs" % unit.name), "w").write(text)
    assumptions = scan_assumptions(text)
    with cf.ThreadPoolExecutor(max_workers=3 + len(unit.extra_configs)) as ex:
        fsearch = ex.submit(cex_search, unit, logdir) if unit.cex_search else None
        f1 = ex.submit(_run_verus, main_rs, unit, os.path.join(logdir, "verus_main"))
        f2 = ex.submit(_run_verus, can_rs, unit, os.path.join(logdir, "verus_canary"))
        fx = [ex.submit(_run_verus, main_rs, unit, os.path.join(logdir, "verus_cfg%d" % i), cfg)
              for i, cfg in enumerate(unit.extra_configs)]
        rc, out, wall, diags, res = f1.result()
        crc, cout, cwall, cdiags, cres = f2.result()
        for i, f in enumerate(fx):
            xrc, xout, xwall, xdiags, xres = f.result()
            if xres is None:
                raise Undecided("Verus (config %s) produced no result: %s" % (unit.extra_configs[i], xout[-800:]))
            for d in xdiags:
                d["message"] = "[cfg %s] %s" % (" ".join(unit.extra_configs[i]), d.get("message", ""))
            diags = diags + xdiags
        presearch = fsearch.result() if fsearch else None
    if res is None:
        raise Undecided("Verus produced no result JSON (rc=%s): %s" % (rc, out[-1500:]))
    vr = res.get("verification-results", {})
    rustc_errs = [d for d in _error_diags(diags) if d.get("code")]
    if rustc_errs:
        # rustc-level errors (unknown method / type mismatch after an edit to /repo): nothing was verified
        raise Undecided("the unit no longer compiles for Verus (code edited beyond the extracted functions?): %s"
                        % "; ".join("%s %s" % ((d.get("code") or {}).get("code", ""), d.get("message", "")[:160]) for d in rustc_errs[:3]))
    if vr.get("encountered-vir-error") or (not vr.get("success") and not _error_diags(diags)):
        msgs = "; ".join(d.get("message", "") for d in diags if d.get("level") == "error")[:1500]
        raise Undecided("Verus could not process the unit (dialect / type error, not a proof failure): %s" % msgs)
    # per-function timing
    times = {}
    for mod in res.get("times-ms", {}).get("smt", {}).get("smt-run-module-times", []):
        for fb in mod.get("function-breakdown", []):
            times[fb["function"].split("::")[-1]] = times.get(fb["function"].split("::")[-1], 0) + fb.get("time-micros", 0) / 1e6
    nlines = text.count("\n") + 1
    errors = _error_diags(diags)
    by_fn = {}   # key -> list of (msg, line)
    unowned = []
    lemma_spans = _lemma_spans(text, unit)
    for d in errors:
        line = _primary_line(d)
        owner = None
        for (a, b, vf) in spans:
            if a <= line <= b:
                owner = ("fn", id(vf))
        if owner is None:
            for (a, b, name) in lemma_spans:
                if a <= line <= b:
                    owner = ("lemma", name)
        if owner is None:
            unowned.append((d.get("message", ""), line))
        else:
            by_fn.setdefault(owner, []).append((d.get("message", ""), line, _all_lines(d)))
    if unowned:
        # failure in a helper lemma / ghost prelude that is not a registered obligation: the machinery,
        # not the code, needs attention -> undecided
        real_unowned = [u for u in unowned if not re.search(r"aborting due to", u[0])]
        if real_unowned:
            raise Undecided("Verus error outside every registered obligation: %s" % real_unowned[:3])
    # canary accounting
    canary_hit = set()
    for d in _error_diags(cdiags):
        line = _primary_line(d)
        for (a, b, vf) in cspans:
            if a <= line <= b and re.search(r"assertion failed|assertion not satisfied", d.get("message", "")):
                # the canary line itself
                src_line = ctext.split("\n")[line - 1] if 0 < line <= ctext.count("\n") + 1 else ""
                if "CANARY" in src_line:
                    canary_hit.add(id(vf))
    obls = []
    for (a, b, vf) in spans:
        o = Obligation("verus:%s:%s" % (unit.name, vf.name or vf.fname), vf.name or vf.fname, vf.text, vf.props,
                       VERUS_BACKEND, kind=vf.kind)
        o.time_s = times.get(vf.fname, 0.0)
        o.checks = sum(1 for l in text.split("\n")[a - 1:b] if re.match(r"\s*(requires|ensures|invariant|decreases|assert)", l)) + 1
        errs = by_fn.get(("fn", id(vf)), [])
        _set_status(o, errs, text)
        if o.status == DISCHARGED and id(vf) not in canary_hit and not getattr(vf, "no_canary", False):
            o.status = UNDECIDED
            o.detail = "canary assert(false) at the start of the body was NOT refuted: precondition may be contradictory"
        obls.append(o)
    for lm in unit.lemmas:
        o = Obligation("verus:%s:%s" % (unit.name, lm.fname), lm.fname, lm.text, lm.props, VERUS_BACKEND)
        o.time_s = times.get(lm.fname, 0.0)
        o.checks = 1
        if not any(n == lm.fname for (_a, _b, n) in lemma_spans):
            o.status, o.detail = UNDECIDED, "lemma not found in assembled unit"
        else:
            _set_status(o, by_fn.get(("lemma", lm.fname), []), text)
        obls.append(o)
    if want_props is not None:
        obls = [o for o in obls if set(o.props) & set(want_props)]
    violated = [o for o in obls if o.status == VIOLATED]
    cex_info = None
    if unit.cex_search:
        # The bounded end-to-end search runs on EVERY check: besides attaching inputs to failed obligations it is the
        # (bounded, labelled) stand-in for the contracts this unit only assumes (OwningIovec, find_stuff_sequence, arena reads):
        # a change inside those dependencies that breaks the property shows up here although every Verus obligation still holds.
        cex_info = presearch
        allp = sorted(set(p for seg in unit.segments if isinstance(seg, VImpl) for vf in seg.fns for p in vf.props))
        so = Obligation("verus:%s:assumed-contracts-bounded-crosscheck" % unit.name, "public API of the %s unit, real dependencies" % unit.name,
                        "executable twins of the spec functions against the REAL code with its real dependencies (vx/%s/%s): bounded "
                        "stand-in for the assumed contracts of this unit" % (unit.name, unit.cex_search["src"]),
                        allp, "cargo test (bounded search)", kind="bounded", bound="see vx/%s/%s" % (unit.name, unit.cex_search["src"]))
        so.time_s = cex_info.get("wall_s", 0.0)
        so.checks = 1
        if not cex_info.get("ran"):
            so.status, so.detail = UNDECIDED, cex_info.get("note", "search did not run")
        elif cex_info.get("found"):
            so.status, so.detail = VIOLATED, "failing inputs on the real code:\n" + "\n".join(cex_info["found"][:5])
            violated = violated + [so]
        else:
            so.status = DISCHARGED
        if want_props is None or set(so.props) & set(want_props):
            obls.append(so)
    if violated:
        if cex_info is None:
            cex_info = {"ran": False, "found": []}
        for o in violated:
            write_replay(unit, o, cex_info)
    extra = {
        "verus_unit": unit.name, "verus_verified_count": vr.get("verified"), "verus_errors": vr.get("errors"),
        "verus_wall_s": round(wall, 2), "canary_functions_refuted": sorted(canary_hit),
        "drift_lines": info["drift_lines"], "n_rules_applied": info["n_rules_applied"],
        "functions_extracted": info["functions"], "items_extracted": info["items"],
        "ghost_files": info["ghost_files"], "assumed_contracts_in_unit": assumptions,
        "extraction_drops": "attributes (#[inline], #[must_use], #[derive] other than Clone/Copy), doc comments, "
                            "#[cfg(test)] items, Display/Debug impls; comment-only and blank lines",
    }
    return obls, extra


def _set_status(o, errs, text):
    if not errs:
        o.status = DISCHARGED
        return
    sem = [e for e in errs if any(re.search(p, e[0]) for p in SEMANTIC)]
    lim = [e for e in errs if any(re.search(p, e[0]) for p in TOOL_LIMIT)]
    lines = text.split("\n")

    def fmt(e):
        extra = ""
        for ln in e[2][:3]:
            if 0 < ln <= len(lines):
                extra += "\n      | %d: %s" % (ln, lines[ln - 1].strip()[:160])
        return "%s (assembled line %d)%s" % (e[0], e[1], extra)

    if sem and not lim:
        o.status = VIOLATED
        o.detail = "\n".join(fmt(e) for e in sem[:5])
    else:
        o.status = UNDECIDED
        o.detail = "tool limit / unsupported: " + "\n".join(fmt(e) for e in (lim or errs)[:3])


def _error_diags(diags):
    return [d for d in diags if d.get("level") == "error" and not re.search(r"aborting due to", d.get("message", ""))]


def _primary_line(d):
    for s in d.get("spans", []):
        if s.get("is_primary"):
            return s.get("line_start", 0)
    return (d.get("spans") or [{}])[0].get("line_start", 0)


def _all_lines(d):
    return [s.get("line_start", 0) for s in d.get("spans", [])]


def _lemma_spans(text, unit):
    """Line spans of every proof fn in the assembled file (name -> span)."""
    masked = rustlex.mask(text)
    res = []
    for m in re.finditer(r"(?m)^[ \t]*(?:pub\s+)?(?:broadcast\s+)?proof\s+fn\s+(\w+)", masked):
        try:
            bo = masked.index("{", m.end())
            # skip braces inside requires/ensures? find the body: first '{' at depth 0 after signature ')'
            bo = normalise._fn_body_open(masked[m.start():]) + m.start()
            end = rustlex.match_bracket(masked, bo)
        except (ValueError, rustlex.LexError):
            continue
        res.append((text[:m.start()].count("\n") + 1, text[:end].count("\n") + 1, m.group(1)))
    return res


def cex_search(unit, logdir):
    """Try to attach a concrete failing input on the real code to an already failed obligation."""
    from common import copy_workspace
    cs = unit.cex_search
    ws = os.path.join(scratch_dir("woodpile-cex-"), "ws")
    copy_workspace(ws)
    target = os.path.join(ws, cs["attach_to"])
    src = _read(target)
    body = _read(os.path.join(VX, unit.name, cs["src"]))
    open(target, "w").write(src + "\n\n#[cfg(test)]\nmod verif_cex {\n" + body + "\n}\n")
    rc, out, wall = run(["cargo", "test", "-p", cs["crate"], "--offline", "--lib", cs["filter"], "--", "--nocapture",
                         "--test-threads", "8"], cwd=ws, timeout=1500, log=os.path.join(logdir, "cex_search.log"))
    found = sorted(set(re.findall(r"^VERIF-CEX .*$", out, re.M)))
    ran = bool(re.search(r"test result:", out))
    # a search test that dies inside the code under test (an assert / index / overflow panic in /repo's code, not the
    # search's own report()) is a failing input as well: the tests pass on the unchanged tree
    for m in re.finditer(r"thread '([^']+)' \(?\d*\)? ?panicked at ([^\n]+):\n([^\n]*)", out):
        tname, loc, msg = m.group(1), m.group(2), m.group(3)
        if "VERIF-CEX" in msg or "verif_cex" not in tname:
            continue
        found.append("VERIF-CEX kind=panic-in-code-under-test test=%s at=%s message=%s" % (tname.split("::")[-1], loc, msg[:200]))
    found = sorted(set(found))
    return {"ran": ran, "found": found[:20], "wall_s": round(wall, 1), "rc": rc,
            "note": "" if ran else "search did not run: " + out[-600:]}


def write_replay(unit, o, cex_info):
    from common import REPLAY_DIR
    d = os.path.join(REPLAY_DIR, "_".join(sorted(o.props)))
    os.makedirs(d, exist_ok=True)
    path = os.path.join(d, o.name.replace(":", ".").replace("/", "_") + ".json")
    found = cex_info.get("found", [])
    json.dump({"engine": "verus", "unit": unit.name, "obligation": o.name, "owner": o.owner, "text": o.text,
               "verifier_output": o.detail, "counterexample_search": cex_info,
               "confirmed_on_real_code": bool(found),
               "note": ("failing inputs found on the real code by the bounded search (the search decides nothing; the "
                        "obligation failed in the verifier)" if found else "no failing input found")},
              open(path, "w"), indent=1)
    o.replay = path
    o.replay_confirmed = True if found else None


def replay_file(registry, path):
    """Re-run the counterexample search of the unit against the current /repo.  True iff failing inputs remain."""
    rp = json.load(open(path))
    unit = registry.VERUS_UNITS[rp["unit"]]
    if not unit.cex_search:
        raise Undecided("Verus obligation without counterexample search; failed obligation: %s" % rp.get("obligation"))
    info = cex_search(unit, scratch_dir("woodpile-cexlog-"))
    if not info["ran"]:
        raise Undecided(info["note"])
    for l in info["found"]:
        print("  " + l)
    return bool(info["found"])
