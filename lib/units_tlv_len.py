"""Verus unit: MessageWrapper::compute_len (rough_tlv/src/encoder.rs).  C11's length / limit rule, for every number of
pairs and every usize value length, generic in the value type (against the ToRoughTLV::rough_tlv_len contract)."""
from verus_engine import VFn, VGhost, VImpl, VItem, VTrait, VerusUnit

F = "rough_tlv/src/encoder.rs"
LIB = "rough_tlv/src/lib.rs"

TLV_LEN = VerusUnit(
    name="tlv_len",
    uses=[],
    keep_visibility=True,
    segments=[
        VItem(LIB, ["struct Tag"], keep_derives=()),
        VGhost("standins.rs"),
        VTrait(F, ["trait ToRoughTLV"], "trait.ovl"),
        VItem(F, ["enum EncodingError"], keep_derives=()),
        VItem(F, ["enum Entries"], keep_derives=()),
        VItem(F, ["struct MessageWrapper"], keep_derives=()),
        VGhost("spec.rs"),
        VImpl("impl<'a, 'this, Value: ToRoughTLV<'a>> MessageWrapper<'a, 'this, Value>", [
            VFn(F, [r"impl /^impl<'a, 'this, Value: ToRoughTLV<'a>> MessageWrapper/", "fn compute_len"], "compute_len.ovl", ["C11"],
                "for every list of pairs (any length) and every usize value length: Ok <=> at most i32::MAX pairs, every value at most "
                "i32::MAX bytes and 4 + 4(N-1) + 4N + sum of value lengths <= i32::MAX; Ok(n) => n is exactly that layout length; "
                "each error names its cause exactly (TooManyElements, the FIRST too-large value, the saturated total); saturating "
                "arithmetic proved for 32- and 64-bit usize; terminates; no panic / overflow",
                rules={"N5", "N17"}, name="MessageWrapper::compute_len"),
        ]),
    ],
    lemmas=[],
)
