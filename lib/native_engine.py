"""Engine C: bounded native cross-checks of the real crate (a stand-in, never a proof).

Some functions are outside both verifiers' reach at the sizes where their behaviour changes regime (the standard
sorts switch algorithm above ~20 elements, block-wise scans only differ from element-wise ones past the first block;
CBMC does not finish on those sizes and Verus has no model of iterator adapters).  For those, the SAME Hoare triple
the Kani harness states (same reference oracle, transcribed from the property) is executed natively over an
enumerated, stated domain: a `#[cfg(test)] mod verif_native` is appended to the file under test in a scratch copy of
/repo's working tree and run with `cargo test`.  Every test is one obligation, always labelled `bounded`.

A failing test prints `VERIF-CEX <test> <input>` before panicking: the input is the replay.
"""
import json
import os
import re

from common import (DISCHARGED, UNDECIDED, VIOLATED, REPLAY_DIR, Obligation, Undecided, copy_workspace, run,
                    scratch_dir)

NATIVE_BACKEND = "rustc/native-run (bounded enumeration)"


class NativeTest:
    def __init__(self, name, props, owner, text, bound, tiers=("quick", "thorough")):
        self.name = name
        self.props = props
        self.owner = owner
        self.text = text
        self.bound = bound
        self.tiers = tiers


class NativeUnit:
    def __init__(self, name, crate, attachments, tests, params=None, timeout=900):
        self.name = name
        self.crate = crate
        self.attachments = list(attachments)   # [(file in /repo, source file in /verif/kn)]
        self.tests = tests
        self.params = params or {}
        self.timeout = timeout


def _subst(text, params):
    for k, v in params.items():
        text = text.replace("@@%s@@" % k, str(v))
    left = re.findall(r"@@\w+@@", text)
    if left:
        raise Undecided("unsubstituted native-test parameters: %s" % sorted(set(left)))
    return text


def _run(unit, tier, logdir, only=None):
    params = unit.params.get(tier, {})
    ws = os.path.join(scratch_dir("woodpile-native-"), "ws")
    copy_workspace(ws)
    for target, src in unit.attachments:
        p = os.path.join(ws, target)
        try:
            cur = open(p).read()
        except OSError as e:
            raise Undecided("attachment target missing: %s (%s)" % (target, e))
        open(p, "w").write(cur + "\n\n#[cfg(test)]\nmod verif_native {\n" + _subst(open(src).read(), params) + "\n}\n")
    os.makedirs(logdir, exist_ok=True)
    flt = only or "verif_native"
    rc, out, wall = run(["cargo", "test", "-p", unit.crate, "--offline", "--lib", flt, "--", "--nocapture",
                         "--test-threads", "8"], cwd=ws, timeout=unit.timeout * (4 if tier == "thorough" else 1),
                        log=os.path.join(logdir, "native.log"))
    return rc, out, wall


def run_unit(unit, tier, want_props=None, logdir=None):
    ts = [t for t in unit.tests if tier in t.tiers and (want_props is None or set(t.props) & set(want_props))]
    if not ts:
        return []
    params = unit.params.get(tier, {})
    rc, out, wall = _run(unit, tier, logdir or scratch_dir("woodpile-nativelog-"))
    ran = bool(re.search(r"^test result:", out, re.M))
    obls = []
    for t in ts:
        o = Obligation("native:%s:%s" % (unit.name, t.name), t.owner, t.text, t.props, NATIVE_BACKEND, kind="bounded",
                       bound=t.bound.format(**params))
        o.time_s = wall / max(1, len(ts))
        # verdicts: with --nocapture the "test x ... ok" lines are interleaved with the tests' own output, so take the
        # failed set from the final "failures:" list and require the test to have been started at all
        failed_block = out.rsplit("\nfailures:\n", 1)[1] if "\nfailures:\n" in out else ""
        failed_names = set(re.findall(r"^\s+(\S*verif_native::\w+)$", failed_block, re.M))
        started = re.search(r"verif_native::%s\b" % re.escape(t.name), out) is not None
        if any(n.endswith("verif_native::" + t.name) for n in failed_names):
            verdict = "FAILED"
        elif started and ran:
            verdict = "ok"
        else:
            verdict = None
        cex = sorted(set(l for l in re.findall(r"^VERIF-CEX .*$", out, re.M) if (" %s " % t.name) in l + " "))
        if rc == -9:
            o.status, o.detail = UNDECIDED, "timeout"
        elif not ran:
            errs = "\n".join(l for l in out.split("\n") if l.startswith("error"))[:1200]
            o.status, o.detail = UNDECIDED, "native cross-check did not build/run against this tree:\n" + (errs or out[-800:])
        elif verdict == "ok" and not cex:
            o.status, o.checks = DISCHARGED, 1
        elif verdict == "FAILED" or cex:
            o.status = VIOLATED
            panic = re.findall(r"panicked at ([^\n]*)\n([^\n]*)", out)
            o.detail = "\n".join(cex[:5]) or ("test failed: " + "; ".join("%s %s" % p for p in panic[:3]))
            d = os.path.join(REPLAY_DIR, "_".join(sorted(t.props)))
            os.makedirs(d, exist_ok=True)
            path = os.path.join(d, "native.%s.%s.json" % (unit.name, t.name))
            json.dump({"engine": "native", "unit": unit.name, "test": t.name, "tier": tier, "obligation": o.name,
                       "owner": t.owner, "text": t.text, "bound": o.bound, "failing_inputs": cex[:20],
                       "panics": ["%s %s" % p for p in panic[:6]], "confirmed_on_real_code": True,
                       "note": "the failing input was produced BY RUNNING the real code (scratch copy of the working tree); "
                               "re-run with ./check <ID> --replay <this file>"}, open(path, "w"), indent=1)
            o.replay, o.replay_confirmed = path, True
        else:
            o.status, o.detail = UNDECIDED, "test %s not found in the cargo test output" % t.name
        obls.append(o)
    return obls


def replay_file(unit, path):
    rp = json.load(open(path))
    rc, out, wall = _run(unit, rp.get("tier", "quick"), scratch_dir("woodpile-nativelog-"), only=rp["test"])
    if not re.search(r"^test result:", out, re.M):
        raise Undecided("native replay did not build/run: " + out[-600:])
    for l in sorted(set(re.findall(r"^VERIF-CEX .*$", out, re.M)))[:10]:
        print("  " + l[:400])
    return "test result: FAILED" in out
