"""Verus unit: SortedDeque<Container, Marker> (sliding_deque/src/sorted_deque.rs) on top of the SlidingDeque unit.  C16,
unbounded, generic in the container and in the comparator/marker (against their trait contracts)."""
import copy

from verus_engine import VFn, VGhost, VImpl, VItem, VLemma, VTrait, VerusUnit
from units_sliding_deque import SLIDING_DEQUE_VX

F = "sliding_deque/src/sorted_deque.rs"
R = {"N1", "N2", "N4", "N5", "N10"}   # no N3: `|x| ..` closures, and no strict bool operators in this file
IMP1 = r"impl /^impl<Container, Marker> SortedDeque<Container, Marker>/#0"
IMP2 = r"impl /^impl<Container, Marker> SortedDeque<Container, Marker>/#1"
HDR1 = ("impl<Container, Marker> SortedDeque<Container, Marker>\nwhere\n    Container: PushTruncateContainer + Clone + Default,\n"
        "    Container::Item: Copy,\n    Marker: SortedDequeComparator<Container::Item> + Clone,")
HDR2 = ("impl<Container, Marker> SortedDeque<Container, Marker>\nwhere\n    Container: PushTruncateContainer + Clone + Default,\n"
        "    Container::Item: Copy,\n    Marker: SortedDequeMarker<Container::Item> + Clone,")


def _base_segments():
    segs = copy.deepcopy(SLIDING_DEQUE_VX.segments)
    for s in segs:
        s.unit_dir = "sliding_deque"
        for vf in getattr(s, "fns", ()):
            vf.unit_dir = "sliding_deque"
    return segs


def f(imp, name, text, subs=()):
    return VFn(F, [imp, "fn " + name], name + ".ovl", ["C16"], text, rules=R, subs=subs, name="SortedDeque::" + name)


_CMP = VTrait(F, ["trait SortedDequeComparator"], "comparator.ovl")
_CMP.subs = [("N14", "    #[inline(always)]\n    #[allow(unused_variables)] // The default implementation is a stub\n"
                     "    fn is_erased(&self, item: &T) -> bool {\n        false\n    }",
              "    fn is_erased(&self, item: &T) -> bool;",
              "the default body of SortedDequeComparator::is_erased (`false`) is DROPPED from the verified text: a default "
              "method cannot be verified against a contract that implementations may refine; an implementor that keeps "
              "the default must define erased() == false")]
_MRK = VTrait(F, ["trait SortedDequeMarker"], "marker.ovl")

SORTED_DEQUE_VX = VerusUnit(
    name="sorted_deque",
    uses=["use std::cmp::Ordering;"],
    keep_visibility=True,
    segments=_base_segments() + [
        VGhost("std_assumed.rs"),
        _CMP,
        _MRK,
        VItem(F, ["struct SortedDeque"], keep_derives=()),
        VGhost("spec.rs"),
        VImpl(HDR1, [
            f(IMP1, "new", "requires the comparator's order laws and a container whose items are sorted with live ends; ensures wf and "
              "live == the container's live items"),
            f(IMP1, "check_rep", "requires wf; both debug assertions hold (never panics)", subs=[
                ("N7", "|x| self.marker.is_erased(x)", "|x: &Container::Item| -> (b: bool)\n            { self.marker.is_erased(x) }",
                 "closure parameter / return types written out and the body braced, so that the closure can carry an `ensures` "
                 "(rustc checks the types agree)")]),
            f(IMP1, "push_back_or_panic", "requires wf and (item erased, or empty, or last key < item key: otherwise the code panics -- Kani "
              "harness c16_*_push_panics); ensures wf; live' = live ++ [item] unless item is erased (then unchanged)"),
            f(IMP1, "clear", "ensures wf, live' = []"),
            f(IMP1, "is_empty", "ensures ret <=> live is empty"),
            f(IMP1, "first", "ensures None on empty, else the smallest present item"),
            f(IMP1, "last", "ensures None on empty, else the largest present item"),
            f(IMP1, "cleanup_back", "requires sorted physical items with a live first item (or empty); pops exactly the trailing erased run; wf after"),
            VFn(F, [IMP1, "fn cleanup_front"], "cleanup_front.ovl", ["C16"],
                "requires the inner deque's rep_ok; drops exactly the leading run of erased items (phys' = phys.skip(erased_prefix)); "
                "loop invariant: everything before idx is erased", rules=R | {"N15"}, name="SortedDeque::cleanup_front"),
            f(IMP1, "pop_first", "requires wf; None and unchanged on empty, else returns live[0], live' = live[1..], wf"),
            f(IMP1, "pop_last", "requires wf; None and unchanged on empty, else returns live.last, live' = live[..last], wf"),
            f(IMP1, "find_index", "Some(i) => physical item i has a key Equal to `key`; None => no physical item has", subs=[
                ("N7", "|item| self.marker.cmp(&self.marker.extract_key(item), key);",
                 "|item: &Container::Item| -> (o: Ordering)\n            { self.marker.cmp(&self.marker.extract_key(item), key) };",
                 "closure parameter / return types written out and the body braced, so that the closure can carry an `ensures`")]),
            f(IMP1, "find", "Some(it) => it is live with a key Equal to `key`; None => no live item has"),
        ]),
        VImpl(HDR2, [
            f(IMP2, "remove", "requires wf; Some(it) => it was live with an Equal key and live' = live minus it; None => no live "
              "item has an Equal key and nothing changed; wf after"),
        ]),
    ],
    lemmas=[],
)
# development aid: VERIF_SD_ONLY=name,name restricts the sorted-deque functions put into the unit
import os as _os
if _os.environ.get("VERIF_SD_ONLY"):
    _keep = set(_os.environ["VERIF_SD_ONLY"].split(","))
    for _seg in SORTED_DEQUE_VX.segments:
        if isinstance(_seg, VImpl) and _seg.fns and _seg.fns[0].file == F:
            _seg.fns = [vf for vf in _seg.fns if vf.fname in _keep]
SORTED_DEQUE_VX.extra_configs = [["-C", "debug-assertions=off"]]
