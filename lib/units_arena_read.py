"""Verus unit: ByteArena::read_n_impl (owning_iovec/src/byte_arena/mod.rs).  C17, arena half, unbounded."""
from verus_engine import VFn, VGhost, VImpl, VItem, VLemma, VerusUnit

F = "owning_iovec/src/byte_arena/mod.rs"
R = {"N1", "N2", "N3", "N4", "N5", "N10"}
SUBS = [
    ("N9", "slice.fill(0);", "slice_fill_u8(slice, 0);", "<[u8]>::fill -> assumed-contract alias (std method generic over T: Clone)"),
    ("N9", "let kind = e.kind();", "let kind = io_error_is_interrupted(&e);",
     "`e.kind()` + comparison with ErrorKind::Interrupted -> one assumed-contract predicate (std::io::ErrorKind has no vstd model)"),
    ("N9", "if kind != std::io::ErrorKind::Interrupted {", "if !kind {", "(second half of the ErrorKind alias)"),
    ("N13", "for _ in 0..max_attempts.get() {", "for _ in verif_it: 0..max_attempts.get() {",
     "the loop's ghost iterator gets a name so that invariants can mention the iteration count; no executable meaning"),
]

ARENA_READ = VerusUnit(
    name="arena_read",
    uses=["use std::io::Read;", "use std::num::NonZeroUsize;"],
    segments=[
        VGhost("model.rs"),
        VImpl("impl ByteArena", [
            VFn(F, ["impl /^impl ByteArena/#1", "fn read_n_impl"], "read_n_impl.ovl", ["C17"],
                "for EVERY reader script (deliveries / short reads, Interrupted, EOF, hard errors, any order, any length), every "
                "count and every attempt limit: at most max_attempts calls; never more than count bytes; stops at EOF, at the first "
                "non-Interrupted error or when full; Ok(n) with exactly the n bytes delivered so far in order whenever n > 0 or no "
                "error is pending; Err(the LAST error) when nothing was delivered; terminates; no panic",
                rules=R, subs=SUBS, name="ByteArena::read_n_impl"),
        ]),
    ],
    lemmas=[],
)
