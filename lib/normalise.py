"""The N-rules: local, syntactic, semantics-preserving rewrites that bring an
extracted woodpile function inside the dialect Verus accepts.  Every
application is recorded (rule, function, line) and reported in the evidence.

N0  visibility qualifiers (`pub`, `pub(crate)`) of extracted items are erased: the assembled unit is one module;
    whitespace only: the `{` that opens a fn / while / loop / for body moves to its own line
    (so that requires/ensures/invariant clauses can be woven in front of it)
N1  `fn f(mut self, ..) { B }`  ->  `fn f(self, ..) { let mut self_ = self; B[self -> self_] }`
N2  `(a, b) = E;`               ->  `let (verif_t0, verif_t1) = E; a = verif_t0; b = verif_t1;`
N3  `X | Y`, `X & Y` on bools   ->  `strict_or(X, Y)`, `strict_and(X, Y)`  (two verified helper fns; a
    call evaluates both operands, left to right, like the strict operators)
N4  `assert_eq!(a, b)` -> `assert!(a == b)`; `assert_ne!` likewise; `debug_assert*!` -> `assert*!`
    (debug builds: identical; release builds: the obligation is stronger than the code)
N5  `-> T {`  ->  `-> (ret: T)`  (names the return value; no semantic content)
N6  `unsafe { NonZeroUsize::new_unchecked(E) }` -> `nz(E)` where `fn nz(x) requires x != 0`
    (turns the unsafe promise into a proof obligation)
N7  closure parameter type annotations at declared sites (rustc checks they agree)
N10 a non-block tail expression `E` of a fn body  ->  `let verif_ret = E; verif_ret`  (so that a proof block
    can sit between the last call and the return; evaluation order unchanged)
N15 `for (I, X) in E.iter().enumerate() { B }`  ->  `{ let mut I: usize = 0; while I < E.len() { let X = &E[I]; B I += 1; } }`
    (E a place expression that derefs to a slice, I and X plain identifiers, no `continue` and no assignment to I in B:
    the same pairs (i, &E[i]) in the same order; `break` leaves the loop in both forms; I is scoped to the block)
N16 `for (I, W) in E.windows(K).enumerate() { B }`  ->  `{ let mut I: usize = 0; while E.len() >= K && I <= E.len() - K
    { let W = &E[I..I + K]; B I += 1; } }`  (K an integer literal >= 1; same side conditions as N15: `windows(K)` yields
    exactly the sub-slices E[i..i+K] for i = 0..=len-K, in order, and nothing when len < K)
N17 `for (I, X) in E.iter().map(|P| F).enumerate() { B }`  ->  `{ let mut I: usize = 0; while I < E.len()
    { let X = { let P = &E[I]; F }; B I += 1; } }`  (the closure body F, a single expression without `return`, is evaluated
    once per element, in order, immediately before the body -- as the lazy adapter does; same side conditions as N15)
N9  declared literal substitutions at named sites (each listed in the unit spec with its justification)
"""
import re

import rustlex


class Applied:
    def __init__(self):
        self.log = []

    def add(self, rule, where, what):
        self.log.append({"rule": rule, "where": where, "what": what})


KEYWORDS = {"if", "else", "let", "return", "while", "match", "in", "for", "loop", "mut", "ref", "move", "as",
            "break", "continue", "fn", "impl", "where", "unsafe"}


def _tokens(masked):
    """Yield (start, end, text) for code tokens of masked text."""
    rx = re.compile(r"\s+|[A-Za-z_][A-Za-z0-9_]*|\d[\w.]*|'[A-Za-z_]\w*|==|!=|<=|>=|&&|\|\||=>|->|::|\.\.=|\.\.|<<|>>|"
                    r"[+\-*/%^|&]=|.")
    pos = 0
    out = []
    while pos < len(masked):
        m = rx.match(masked, pos)
        if not m.group(0).isspace():
            out.append((m.start(), m.end(), m.group(0)))
        pos = m.end()
    return out


_TIGHT_BOUNDARY = {"==", "!=", "<", ">", "<=", ">=", "&&", "||", ",", ";", "=", "=>", "{", "}", "..", "..=",
                   "+=", "-=", "*=", "/=", "|=", "&=", "^=", "%=", "?"} | KEYWORDS


def n3_strict_bool_ops(text, applied, where):
    """Rewrite binary `&` then `|` (bool strict ops) into calls.  Operands are delimited by
    lower-precedence tokens at the same bracket depth."""
    for op, fn in (("&", "strict_and"), ("|", "strict_or")):
        while True:
            masked = rustlex.mask(text)
            toks = _tokens(masked)
            hit = None
            for k, (s, e, t) in enumerate(toks):
                if t != op or k == 0 or k + 1 >= len(toks):
                    continue
                prev = toks[k - 1][2]
                # binary iff previous token ends an expression
                if not (re.match(r"[A-Za-z_0-9]", prev[-1]) or prev in (")", "]")) or prev in KEYWORDS:
                    continue
                # operands
                lo = _operand_left(toks, k, op)
                hi = _operand_right(toks, k, op)
                if lo is None or hi is None:
                    continue
                # pattern context: `A | B =>` is an or-pattern, not an expression
                if hi + 1 < len(toks) and toks[hi + 1][2] in ("=>", "if") and op == "|":
                    # `if` after a pattern is a match guard
                    continue
                hit = (toks[lo][0], s, e, toks[hi][1])
                break
            if not hit:
                break
            a, s, e, b = hit
            left = text[a:s].strip()
            right = text[e:b].strip()
            new = "%s(%s, %s)" % (fn, _unparen(left), _unparen(right))
            applied.add("N3", where, "%s %s %s -> %s" % (left, op, right, new))
            text = text[:a] + new + text[b:]
    return text


def _unparen(s):
    if s.startswith("(") and s.endswith(")"):
        m = rustlex.mask(s)
        try:
            if rustlex.match_bracket(m, 0) == len(s) - 1:
                return s[1:-1].strip()
        except rustlex.LexError:
            pass
    return s


def _operand_left(toks, k, op):
    depth = 0
    j = k - 1
    first = None
    while j >= 0:
        t = toks[j][2]
        if t in ")]":
            depth += 1
        elif t in "([":
            if depth == 0:
                break
            depth -= 1
        elif depth == 0:
            if t in _TIGHT_BOUNDARY or (op == "&" and t in ("|", "^")) or t == "{" or t == "}":
                break
            if t == op and op == "|":
                break  # left-assoc: handled one at a time, leftmost first
        first = j
        j -= 1
    return first


def _operand_right(toks, k, op):
    depth = 0
    j = k + 1
    last = None
    while j < len(toks):
        t = toks[j][2]
        if t in "([":
            depth += 1
        elif t in ")]":
            if depth == 0:
                break
            depth -= 1
        elif depth == 0:
            if t in _TIGHT_BOUNDARY or t in ("|", "^") or (t == "&" and op == "&"):
                break
        last = j
        j += 1
    return last


def n4_asserts(text, applied, where):
    def repl_eq(m):
        macro = m.group(1)
        masked = rustlex.mask(text)
        return None
    out = text
    for macro, opr in (("assert_eq", "=="), ("assert_ne", "!="), ("debug_assert_eq", "=="), ("debug_assert_ne", "!=")):
        while True:
            masked = rustlex.mask(out)
            m = re.search(r"\b%s!\s*\(" % macro, masked)
            if not m:
                break
            o = m.end() - 1
            c = rustlex.match_bracket(masked, o)
            inner = out[o + 1:c]
            parts = _split_top(inner)
            if len(parts) < 2:
                break
            if "|" in rustlex.mask(parts[0]) or "|" in rustlex.mask(parts[1]):
                # an operand holds a closure: std's assert! would parse it as plain Rust, so a closure contract could not
                # be attached.  Bind the operands first (same evaluation order), then assert.
                new = ("{\n        let verif_lhs = %s;\n        let verif_rhs = %s;\n        assert!(verif_lhs %s verif_rhs);\n        }"
                       % (parts[0].strip(), parts[1].strip(), opr))
                applied.add("N4", where, "%s!(a, b) -> { let verif_lhs = a; let verif_rhs = b; assert!(verif_lhs %s verif_rhs); } "
                                         "(an operand contains a closure)" % (macro, opr))
            else:
                new = "assert!((%s) %s (%s))" % (parts[0].strip(), opr, parts[1].strip())
                applied.add("N4", where, "%s!(..) -> assert!(.. %s ..)" % (macro, opr))
            out = out[:m.start()] + new + out[c + 1:]
    n = len(re.findall(r"\bdebug_assert!\s*\(", rustlex.mask(out)))
    if n:
        out = re.sub(r"\bdebug_assert!", "assert!", out)
        applied.add("N4", where, "debug_assert! -> assert! (x%d)" % n)
    return out


def _split_top(s):
    masked = rustlex.mask(s)
    parts, depth, last = [], 0, 0
    for i, ch in enumerate(masked):
        if ch in "([{":
            depth += 1
        elif ch in ")]}":
            depth -= 1
        elif ch == "," and depth == 0:
            parts.append(s[last:i])
            last = i + 1
    parts.append(s[last:])
    return [p for p in parts if p.strip()]


def n2_destructuring_assign(text, applied, where):
    while True:
        masked = rustlex.mask(text)
        m = re.search(r"(?<=[;{}])(\s*)\(\s*([A-Za-z_][\w.]*(?:\s*,\s*[A-Za-z_][\w.]*)+)\s*\)\s*=(?!=)", masked)
        if not m:
            return text
        names = [x.strip() for x in m.group(2).split(",")]
        # find the terminating ';' at depth 0
        j = m.end()
        depth = 0
        while j < len(masked):
            ch = masked[j]
            if ch in "([{":
                depth += 1
            elif ch in ")]}":
                depth -= 1
            elif ch == ";" and depth == 0:
                break
            j += 1
        tmps = ["verif_t%d" % i for i in range(len(names))]
        indent = m.group(1).split("\n")[-1]
        assigns = "".join("\n%s%s = %s;" % (indent, n, t) for n, t in zip(names, tmps))
        new = "%slet (%s) =%s;%s" % (m.group(1), ", ".join(tmps), text[m.end():j], assigns)
        applied.add("N2", where, "(%s) = E; -> let-tuple + assignments" % ", ".join(names))
        text = text[:m.start()] + new + text[j + 1:]


def n1_mut_self(text, applied, where):
    masked = rustlex.mask(text)
    m = re.match(r"[^{]*?\bfn\s+\w+\s*(?:<[^(]*>)?\s*\(\s*mut\s+self\b", masked, re.S)
    if not m:
        return text
    body_open = _fn_body_open(masked)
    head = text[:body_open]
    body = text[body_open + 1:]
    head = re.sub(r"\(\s*mut\s+self\b", "(self", head, count=1)
    # rename `self` tokens in code (not in strings/comments)
    bmask = rustlex.mask(body)
    out, last = [], 0
    for mm in re.finditer(r"\bself\b", bmask):
        out.append(body[last:mm.start()])
        out.append("self_")
        last = mm.end()
    out.append(body[last:])
    indent = re.search(r"\n(\s*)\S", body)
    ind = indent.group(1) if indent else "        "
    applied.add("N1", where, "mut self receiver -> let mut self_ = self")
    return head + "{\n" + ind + "let mut self_ = self;" + "".join(out)


def _fn_body_open(masked):
    """offset of the '{' opening the fn body: first '{' at paren depth 0 after the signature."""
    depth = 0
    i = masked.index("fn")
    while i < len(masked):
        ch = masked[i]
        if ch in "([":
            depth += 1
        elif ch in ")]":
            depth -= 1
        elif ch == "{" and depth == 0:
            return i
        i += 1
    raise rustlex.LexError("no fn body")


def n5_name_return(text, applied, where, retname="ret"):
    masked = rustlex.mask(text)
    bo = _fn_body_open(masked)
    head = text[:bo]
    hm = masked[:bo]
    # `->` at paren depth 0
    depth, arrow = 0, None
    for i, ch in enumerate(hm):
        if ch in "([":
            depth += 1
        elif ch in ")]":
            depth -= 1
        elif hm.startswith("->", i) and depth == 0:
            arrow = i
    if arrow is None:
        return text
    rest = head[arrow + 2:]
    wm = re.search(r"\bwhere\b", rustlex.mask(rest))
    ty = rest[:wm.start()] if wm else rest
    where_clause = rest[wm.start():] if wm else ""
    if re.match(r"\s*\(\s*\w+\s*:", ty):
        return text
    new_head = head[:arrow] + "-> (%s: %s)" % (retname, ty.strip()) + ((" " + where_clause.strip()) if where_clause else "") + "\n"
    applied.add("N5", where, "named return value")
    return new_head + text[bo:]


def n0_split_braces(text, applied, where):
    """Put the `{` that opens the fn body and loop bodies on its own line."""
    masked = rustlex.mask(text)
    bo = _fn_body_open(masked)
    lines_before = text[:bo].rstrip()
    ind = re.match(r"\s*", text.split("\n")[0]).group(0) if False else ""
    text = lines_before + "\n" + _indent_of_first_line(text) + "{" + text[bo + 1:]
    # loops
    out = []
    for line in text.split("\n"):
        ml = rustlex.mask(line)
        m = re.match(r"(\s*)(?:'\w+:\s*)?(while|loop|for)\b.*\{\s*$", ml)
        if m and ml.count("{") - ml.count("}") == 1 and not ml.rstrip().endswith("{{"):
            k = ml.rstrip().rfind("{")
            out.append(line[:k].rstrip())
            out.append(m.group(1) + "{")
        else:
            out.append(line)
    return "\n".join(out)


def _indent_of_first_line(text):
    return re.match(r"[ \t]*", text).group(0)


def n6_nonzero_unchecked(text, applied, where):
    new, n = re.subn(r"unsafe\s*\{\s*NonZeroUsize::new_unchecked\((.*?)\)\s*\}", r"nz(\1)", text)
    if n:
        applied.add("N6", where, "unsafe NonZeroUsize::new_unchecked(E) -> nz(E) with requires E != 0 (x%d)" % n)
    return new


_BLOCKLIKE = ("if", "match", "while", "for", "loop", "unsafe", "{")


def n10_bind_tail(text, applied, where):
    masked = rustlex.mask(text)
    bo = _fn_body_open(masked)
    bc = rustlex.match_bracket(masked, bo)
    toks = [(s, e, t) for (s, e, t) in _tokens(masked[:bc]) if s > bo]
    depth = 0
    stmt_start = None      # offset of current statement's first token
    first_tok = None
    i = 0
    while i < len(toks):
        s, e, t = toks[i]
        if depth == 0 and stmt_start is None:
            stmt_start, first_tok = s, t
        if t in "([{":
            depth += 1
        elif t in ")]}":
            depth -= 1
            if depth == 0 and t == "}" and first_tok in _BLOCKLIKE:
                nxt = toks[i + 1][2] if i + 1 < len(toks) else None
                if nxt not in ("else", ".", "?"):
                    stmt_start = None
        elif t == ";" and depth == 0:
            stmt_start = None
        i += 1
    if stmt_start is None or first_tok in _BLOCKLIKE or first_tok in ("return", "let"):
        return text
    tail = text[stmt_start:bc].rstrip()
    ind = re.search(r"([ \t]*)$", text[:stmt_start]).group(1)
    new = "let verif_ret = " + tail + ";\n" + ind + "verif_ret\n" + _indent_of_line(text, bc)
    applied.add("N10", where, "tail expression bound to verif_ret")
    return text[:stmt_start] + new + text[bc:]


def _indent_of_line(text, pos):
    ls = text.rfind("\n", 0, pos) + 1
    return re.match(r"[ \t]*", text[ls:]).group(0)


def n15_enumerate_loops(text, applied, where):
    """for (I, X) in E.iter().enumerate() { B }  ->  indexed while loop (see the module docstring)."""
    while True:
        masked = rustlex.mask(text)
        m = re.search(r"\bfor\s*\(\s*([A-Za-z_]\w*)\s*,\s*([A-Za-z_]\w*)\s*\)\s*in\s+([A-Za-z_][\w.]*)\.iter\(\)\.enumerate\(\)\s*\{", masked)
        if not m:
            return text
        idx, item, expr = m.group(1), m.group(2), m.group(3)
        o = m.end() - 1
        c = rustlex.match_bracket(masked, o)
        body_m = masked[o + 1:c]
        if re.search(r"\bcontinue\b", body_m) or re.search(r"\b%s\s*(?:[+\-*/%%^|&]|<<|>>)?=(?!=)" % re.escape(idx), body_m):
            raise rustlex.LexError("N15 does not apply: the enumerate loop body has `continue` or assigns its index")
        ind = _indent_of_line(text, m.start())
        body = text[o + 1:c].rstrip()
        new = ("{\n%slet mut %s: usize = 0;\n%swhile %s < %s.len() {\n%s    let %s = &%s[%s];%s\n%s    %s += 1;\n%s}\n%s}"
               % (ind, idx, ind, idx, expr, ind, item, expr, idx, body, ind, idx, ind, ind))
        applied.add("N15", where, "for (%s, %s) in %s.iter().enumerate() -> indexed while loop" % (idx, item, expr))
        text = text[:m.start()] + new + text[c + 1:]


def n16_windows_enumerate_loops(text, applied, where):
    """for (I, W) in E.windows(K).enumerate() { B }  ->  indexed while loop (see the module docstring)."""
    while True:
        masked = rustlex.mask(text)
        m = re.search(r"\bfor\s*\(\s*([A-Za-z_]\w*)\s*,\s*([A-Za-z_]\w*)\s*\)\s*in\s+([A-Za-z_][\w.]*)\.windows\(\s*([1-9]\d*)\s*\)\.enumerate\(\)\s*\{", masked)
        if not m:
            return text
        idx, item, expr, k = m.group(1), m.group(2), m.group(3), m.group(4)
        o = m.end() - 1
        c = rustlex.match_bracket(masked, o)
        body_m = masked[o + 1:c]
        if re.search(r"\bcontinue\b", body_m) or re.search(r"\b%s\s*(?:[+\-*/%%^|&]|<<|>>)?=(?!=)" % re.escape(idx), body_m):
            raise rustlex.LexError("N16 does not apply: the windows/enumerate loop body has `continue` or assigns its index")
        ind = _indent_of_line(text, m.start())
        body = text[o + 1:c].rstrip()
        new = ("{\n%slet mut %s: usize = 0;\n%swhile %s.len() >= %s && %s <= %s.len() - %s {\n%s    let %s = &%s[%s..%s + %s];%s\n%s    %s += 1;\n%s}\n%s}"
               % (ind, idx, ind, expr, k, idx, expr, k, ind, item, expr, idx, idx, k, body, ind, idx, ind, ind))
        applied.add("N16", where, "for (%s, %s) in %s.windows(%s).enumerate() -> indexed while loop" % (idx, item, expr, k))
        text = text[:m.start()] + new + text[c + 1:]


def n17_map_enumerate_loops(text, applied, where):
    """for (I, X) in E.iter().map(|P| F).enumerate() { B }  ->  indexed while loop (see the module docstring)."""
    while True:
        masked = rustlex.mask(text)
        m = re.search(r"\bfor\s*\(\s*([A-Za-z_]\w*)\s*,\s*([A-Za-z_]\w*)\s*\)\s*in\s+([A-Za-z_][\w.]*)\.iter\(\)\.map\(\s*\|\s*([A-Za-z_]\w*)\s*\|", masked)
        if not m:
            return text
        idx, item, expr, par = m.group(1), m.group(2), m.group(3), m.group(4)
        po = masked.rfind("(", 0, m.end())            # the `(` of map(
        pc = rustlex.match_bracket(masked, po)
        fbody = text[m.end():pc].strip()
        fm = masked[m.end():pc]
        tail = re.match(r"\.enumerate\(\)\s*\{", masked[pc + 1:])
        if not tail or re.search(r"\breturn\b|\?", fm) or fm.strip().startswith("{"):
            raise rustlex.LexError("N17 does not apply: not `.map(|p| expr).enumerate() {` with a plain expression closure")
        o = pc + 1 + tail.end() - 1
        c = rustlex.match_bracket(masked, o)
        body_m = masked[o + 1:c]
        if re.search(r"\bcontinue\b", body_m) or re.search(r"\b%s\s*(?:[+\-*/%%^|&]|<<|>>)?=(?!=)" % re.escape(idx), body_m):
            raise rustlex.LexError("N17 does not apply: the loop body has `continue` or assigns its index")
        ind = _indent_of_line(text, m.start())
        body = text[o + 1:c].rstrip()
        new = ("{\n%slet mut %s: usize = 0;\n%swhile %s < %s.len() {\n%s    let %s = { let %s = &%s[%s]; %s };%s\n%s    %s += 1;\n%s}\n%s}"
               % (ind, idx, ind, idx, expr, ind, item, par, expr, idx, fbody, body, ind, idx, ind, ind))
        applied.add("N17", where, "for (%s, %s) in %s.iter().map(|%s| %s).enumerate() -> indexed while loop" % (idx, item, expr, par, fbody))
        text = text[:m.start()] + new + text[c + 1:]


def strip_visibility(text):
    return re.sub(r"^(\s*)pub(?:\([^)]*\))?\s+", r"\1", text, count=1)


def normalise_fn(text, where, applied, rules, literal_subs=(), keep_visibility=False):
    """text: verbatim fn item (no attributes).  rules: iterable of rule names to apply."""
    if not keep_visibility:
        text = strip_visibility(text)   # N0: everything lives in one module of the assembled file
    # uniform indentation: keep as is
    if "N4" in rules:
        text = n4_asserts(text, applied, where)
    if "N2" in rules:
        text = n2_destructuring_assign(text, applied, where)
    if "N3" in rules:
        text = n3_strict_bool_ops(text, applied, where)
    if "N15" in rules:
        text = n15_enumerate_loops(text, applied, where)
    if "N16" in rules:
        text = n16_windows_enumerate_loops(text, applied, where)
    if "N17" in rules:
        text = n17_map_enumerate_loops(text, applied, where)
    for (rule, old, new, why) in literal_subs:
        if old in text:
            text = text.replace(old, new)
            applied.add(rule, where, "%s  [%s]" % (why, old.strip()[:60]))
    if "N1" in rules:
        text = n1_mut_self(text, applied, where)
    if "N5" in rules:
        text = n5_name_return(text, applied, where)
    if "N10" in rules:
        text = n10_bind_tail(text, applied, where)
    text = n0_split_braces(text, applied, where)
    return text
