"""Engine B: Kani on the real crate, annotated in a scratch copy.

The workspace working tree is copied to a scratch directory; contract
attributes are inserted *above* named functions (bodies untouched) and a
`#[cfg(kani)] mod verif_kani` is appended to the crate root so harnesses can
reach private items.  Every harness is one obligation group.
"""
import concurrent.futures as cf
import json
import os
import re
import time

from common import (DISCHARGED, UNDECIDED, VIOLATED, NCPU, REPLAY_DIR, VERIF, Obligation, Undecided,
                    copy_workspace, run, scratch_dir, sha256)

KANI_BACKEND = "kani-0.68/cbmc-6.11/cadical"


class Harness:
    def __init__(self, name, props, owner, text, kind="proof", bound=None, tiers=("quick", "thorough"),
                 timeout=900, mem_gb=24, covers=0, extra_args=(), functions=(), mod="", must_panic_in=None,
                 unwind_is_property_in=None):
        self.name = name
        self.props = props
        self.owner = owner
        self.text = text
        self.kind = kind
        self.bound = bound          # human-readable statement of the bound (may contain {N} keys)
        self.tiers = tiers
        self.timeout = timeout
        self.mem_gb = mem_gb
        self.covers = covers        # number of kani::cover! that must be satisfied
        self.extra_args = list(extra_args)
        self.functions = list(functions) or [owner]
        # "always panics" harnesses: verification must FAIL, every failed check must lie in a function whose
        # name contains this string, and the VERIF-MARKER-NOT-PANICKED assertion must not be among them
        self.must_panic_in = must_panic_in
        # wait-freedom harnesses: the unwinding bound of the loop in the named function IS the property ("completes
        # in one pass unless a write completed"); a failed unwinding assertion there is a violation, not a tool limit
        self.unwind_is_property_in = unwind_is_property_in
        self.mod = mod              # module path of the file the harness module is appended to

    @property
    def qualname(self):
        return (self.mod + "::" if self.mod else "") + "verif_kani::" + self.name


class Injection:
    """Insert `lines` immediately above the first line matching `anchor_re` in `file`
    (searching after the first line matching `after_re` if given)."""

    def __init__(self, file, anchor_re, lines, after_re=None):
        self.file = file
        self.anchor_re = anchor_re
        self.lines = lines
        self.after_re = after_re


class KaniUnit:
    def __init__(self, crate, attachments, harnesses, injections=(), params=None,
                 kani_args=(), crate_attrs=(), crate_root=None):
        self.crate = crate
        # [(file in /repo the module is appended to, harness file in /verif/kc, module path of that file)]
        self.attachments = list(attachments)
        self.crate_root = crate_root or (crate + "/src/lib.rs")
        self.harnesses = harnesses
        self.injections = list(injections)
        self.params = params or {}          # {"quick": {"N": 5}, "thorough": {"N": 7}}
        self.kani_args = list(kani_args)    # e.g. ["-Z", "function-contracts"]
        self.crate_attrs = list(crate_attrs)


def _subst(text, params):
    for k, v in params.items():
        text = text.replace("@@%s@@" % k, str(v))
    left = re.findall(r"@@\w+@@", text)
    if left:
        raise Undecided("unsubstituted harness parameters: %s" % sorted(set(left)))
    return text


def prepare(unit, tier, extra_tests=None):
    """Build the annotated scratch copy.  Returns the workspace path."""
    ws = os.path.join(scratch_dir("woodpile-kani-"), "ws")
    copy_workspace(ws)
    params = unit.params.get(tier, {})
    for inj in unit.injections:
        p = os.path.join(ws, inj.file)
        try:
            lines = open(p).read().split("\n")
        except OSError as e:
            raise Undecided("injection target missing: %s (%s)" % (inj.file, e))
        start = 0
        if inj.after_re:
            for i, l in enumerate(lines):
                if re.search(inj.after_re, l):
                    start = i
                    break
            else:
                raise Undecided("lost anchor %r in %s" % (inj.after_re, inj.file))
        for i in range(start, len(lines)):
            if re.search(inj.anchor_re, lines[i]):
                # climb over attributes / doc comments directly above the fn
                j = i
                while j > 0 and re.match(r"\s*(#\[|///)", lines[j - 1]):
                    j -= 1
                indent = re.match(r"\s*", lines[i]).group(0)
                new = [indent + _subst(x, params) for x in inj.lines]
                lines[j:j] = new
                break
        else:
            raise Undecided("lost anchor %r in %s" % (inj.anchor_re, inj.file))
        open(p, "w").write("\n".join(lines))
    for (target, hfile, mod) in unit.attachments:
        htext = _subst(open(hfile).read(), params)
        root = os.path.join(ws, target)
        try:
            src = open(root).read()
        except OSError as e:
            raise Undecided("attachment target missing: %s (%s)" % (target, e))
        extra = extra_tests.get(mod, "") if isinstance(extra_tests, dict) else ""
        src = src + "\n\n#[cfg(kani)]\nmod verif_kani {\n" + htext + "\n" + extra + "\n}\n"
        open(root, "w").write(src)
    if unit.crate_attrs:
        root = os.path.join(ws, unit.crate_root)
        src = open(root).read()
        open(root, "w").write("".join(a + "\n" for a in unit.crate_attrs) + src)
    return ws


_RE_SUMMARY = re.compile(r"\*\* (\d+) of (\d+) failed")
_RE_COVER = re.compile(r"\*\* (\d+) of (\d+) cover properties satisfied")


def parse_kani_output(out):
    res = {"status": None, "failed": [], "checks": 0, "nfailed": 0, "covers": None, "time": 0.0}
    m = _RE_SUMMARY.search(out)
    if m:
        res["nfailed"], res["checks"] = int(m.group(1)), int(m.group(2))
    m = _RE_COVER.search(out)
    if m:
        res["covers"] = (int(m.group(1)), int(m.group(2)))
    # a description may span several lines (contract closures); it ends at the " File:" line
    for blk in re.split(r"(?m)^Failed Checks: ", out)[1:]:
        m = re.match(r"(.*?)\n\s*File: \"([^\"]*)\", line (\d+), in ([^\n]+)", blk, re.S)
        if m and "Failed Checks:" not in m.group(1) and "VERIFICATION" not in m.group(1):
            res["failed"].append({"desc": " ".join(m.group(1).split()), "file": m.group(2),
                                  "line": int(m.group(3)), "fn": m.group(4)})
        else:
            res["failed"].append({"desc": blk.split("\n")[0].strip(), "file": "", "line": 0, "fn": ""})
    m = re.search(r"Verification Time: ([0-9.]+)s", out)
    if m:
        res["time"] = float(m.group(1))
    if "VERIFICATION:- SUCCESSFUL" in out:
        res["status"] = "ok"
    elif "VERIFICATION:- FAILED" in out:
        res["status"] = "failed"
    return res


_TOOL_LIMIT_PATTERNS = [
    r"unwinding assertion", r"is not currently supported by Kani", r"unsupported", r"recursion unwinding",
    r"Kani does not support", r"out of memory", r"std::bad_alloc", r"CBMC failed",
]


def classify(parsed, out, rc, harness):
    """-> (status, detail).  Only semantic check failures are violations."""
    if rc == -9:
        return UNDECIDED, "timeout after %ds" % harness.timeout
    if rc == -8:
        return UNDECIDED, "resident memory above %d GB" % harness.mem_gb
    if parsed["status"] is None:
        tail = out[-1500:]
        return UNDECIDED, "no verification verdict (rc=%s): %s" % (rc, tail)
    if harness.must_panic_in:
        marker = [f for f in parsed["failed"] if "VERIF-MARKER-NOT-PANICKED" in f["desc"]]
        other = [f for f in parsed["failed"] if "VERIF-MARKER" not in f["desc"] and harness.must_panic_in not in f["fn"]]
        limits = [f for f in other if any(re.search(p, f["desc"], re.I) for p in _TOOL_LIMIT_PATTERNS)]
        if marker:
            return VIOLATED, "the call returned instead of panicking: " + "; ".join(
                "%s @ %s:%d" % (f["desc"], f["file"], f["line"]) for f in marker)
        if limits:
            return UNDECIDED, "tool limit: " + "; ".join(f["desc"] for f in limits[:4])
        if other:
            return VIOLATED, "unexpected failure outside %s: %s" % (harness.must_panic_in, "; ".join(
                "%s @ %s:%d in %s" % (f["desc"], f["file"], f["line"], f["fn"]) for f in other[:4]))
        if parsed["status"] == "ok" or not parsed["failed"]:
            return UNDECIDED, "no panic was reachable at all (vacuous harness?)"
        return DISCHARGED, ""
    if parsed["status"] == "ok":
        if harness.covers and (parsed["covers"] is None or parsed["covers"][0] < harness.covers):
            return UNDECIDED, "cover properties not all satisfied: %s (vacuity guard)" % (parsed["covers"],)
        if parsed["checks"] == 0:
            return UNDECIDED, "zero checks generated (vacuity guard)"
        return DISCHARGED, ""
    # failed
    semantic = []
    limits = []
    for f in parsed["failed"]:
        if (harness.unwind_is_property_in and "unwinding assertion" in f["desc"]
                and harness.unwind_is_property_in in f["fn"]):
            semantic.append(dict(f, desc="the loop of %s can go around again within the harness's bound on completed writes "
                                         "(%s): it waits, or retries without a completed write" % (f["fn"], f["desc"])))
        elif any(re.search(p, f["desc"], re.I) for p in _TOOL_LIMIT_PATTERNS):
            limits.append(f)
        else:
            semantic.append(f)
    if semantic:
        return VIOLATED, "; ".join("%s @ %s:%d in %s" % (f["desc"], f["file"], f["line"], f["fn"])
                                   for f in semantic[:6])
    if limits:
        return UNDECIDED, "tool limit: " + "; ".join(f["desc"] for f in limits[:4])
    return UNDECIDED, "FAILED without a parsed failed check: " + out[-800:]


def _kani_cmd(unit, harness, extra=()):
    return (["cargo", "kani", "-p", unit.crate] + unit.kani_args + harness.extra_args +
            ["--harness", harness.qualname, "--exact", "--output-format", os.environ.get("VERIF_KANI_FORMAT", "terse")] + list(extra))


def _extract_playback_tests(out):
    tests = []
    for m in re.finditer(r"```\n(.*?)```", out, re.S):
        body = m.group(1)
        nm = re.search(r"fn (kani_concrete_playback_\w+)\(\)", body)
        if nm:
            # witnesses of satisfied covers are not counterexamples
            if re.search(r"^/// Check for `cover`", body, re.M):
                continue
            # Kani's doc comments quote the failed condition; something on the playback path re-lexes them
            # (`ident"` is a reserved prefix in edition 2021), so turn them into plain comments
            body = re.sub(r"^///", "// --", body, flags=re.M)
            tests.append((nm.group(1), body))
    return tests


def run_unit(unit, tier, want_props=None, logdir=None):
    """Run every harness of `unit` selected by tier (and, if given, carrying one
    of want_props).  Returns list[Obligation]."""
    hs = [h for h in unit.harnesses if tier in h.tiers and
          (want_props is None or set(h.props) & set(want_props))]
    only = os.environ.get("VERIF_ONLY")
    if only:
        hs = [h for h in hs if h.name in only.split(",")]
    for h in hs:
        if not hasattr(h, "_base_timeout"):
            h._base_timeout = h.timeout
        # the thorough tier explores larger bounds: give each harness four times the budget
        h.timeout = h._base_timeout * (4 if tier == "thorough" else 1)
        if os.environ.get("VERIF_TIMEOUT"):
            h.timeout = int(os.environ["VERIF_TIMEOUT"])
    if not hs:
        return []
    ws = prepare(unit, tier)
    logdir = logdir or os.path.join(os.path.dirname(ws), "logs")
    os.makedirs(logdir, exist_ok=True)
    params = unit.params.get(tier, {})
    # 1. build once
    union_args = []
    rc, out, wall = run(["cargo", "kani", "-p", unit.crate] + unit.kani_args + ["--only-codegen"],
                        cwd=ws, timeout=1200, log=os.path.join(logdir, "build.log"))
    if rc != 0:
        errs = "\n".join(l for l in out.split("\n") if l.startswith("error"))[:1500]
        raise Undecided("Kani build of %s failed (harness no longer compiles against /repo?):\n%s\n%s"
                        % (unit.crate, errs, out[-1500:]))
    obls = []

    def one(h):
        o = Obligation("kani:%s:%s" % (unit.crate, h.name), h.owner, h.text, h.props, KANI_BACKEND,
                       kind=h.kind, bound=(h.bound.format(**params) if h.bound else None))
        log = os.path.join(logdir, h.name + ".log")
        rc, out, wall = run(_kani_cmd(unit, h), cwd=ws, timeout=h.timeout, mem_gb=h.mem_gb, log=log)
        parsed = parse_kani_output(out)
        o.status, o.detail = classify(parsed, out, rc, h)
        o.time_s = wall
        o.checks = parsed["checks"]
        o.failed_checks = parsed["failed"]
        o.covers = parsed["covers"]
        return o, h

    with cf.ThreadPoolExecutor(max_workers=min(NCPU, max(1, len(hs)))) as ex:
        results = list(ex.map(one, hs))
    for o, h in results:
        if o.status == VIOLATED:
            _playback(unit, h, o, ws, logdir, tier)
        obls.append(o)
    return obls


def _playback(unit, h, o, ws, logdir, tier):
    """Ask Kani for the concrete counterexample and run it natively against the real
    code (cargo kani playback).  Writes the replay file whatever happens."""
    rc, out, wall = run(_kani_cmd(unit, h, ["-Z", "concrete-playback", "--concrete-playback=print"]), cwd=ws,
                        timeout=h.timeout, mem_gb=h.mem_gb, log=os.path.join(logdir, h.name + ".playback-gen.log"))
    tests = _extract_playback_tests(out)
    replay = {
        "engine": "kani", "unit": unit.crate, "harness": h.name, "mod": h.mod, "tier": tier, "obligation": o.name,
        "owner": o.owner, "text": o.text, "failed_checks": o.failed_checks, "verifier_output": o.detail,
        "tests": [], "confirmed_on_real_code": False,
    }
    confirmed = False
    if tests:
        target = [t for (t, _h, m) in unit.attachments if m == h.mod][0]
        root = os.path.join(ws, target)
        src = open(root).read().rstrip()
        assert src.endswith("}")
        body = "\n".join(t[1] for t in tests)
        open(root, "w").write(src[:-1] + "\n" + body + "\n}\n")
        rc2, out2, _ = run(["cargo", "kani", "playback", "-Z", "concrete-playback", "-p", unit.crate] + unit.kani_args +
                           ["--", "kani_concrete_playback"], cwd=ws, timeout=900,
                           log=os.path.join(logdir, h.name + ".playback-run.log"))
        failed_tests = re.findall(r"test (\S*kani_concrete_playback_\w+) \.\.\. FAILED", out2)
        panics = re.findall(r"panicked at ([^\n]*)\n([^\n]*)", out2)
        # a native failure counts only if it is the code's / the harness's own panic -- not the playback driver
        # complaining about left-over or missing values (the native run took a different path, e.g. because the
        # harness relies on kani::stub, which does not exist natively)
        genuine = [p for p in panics if "concrete_playback.rs" not in p[0]]
        stubbed = _uses_stub(unit, h)
        confirmed = bool(failed_tests) and bool(genuine) and not stubbed
        replay["native_replay_meaningful"] = not stubbed
        if stubbed:
            replay["note"] = ("the harness injects its environment through kani::stub (not available natively): the concrete values "
                              "below are Kani's counterexample; to reproduce, re-run the harness (`./check <ID> --replay <this file>` does)")
        replay["tests"] = [{"name": n, "code": c} for n, c in tests]
        replay["native_run"] = {"failed_tests": failed_tests,
                                "panics": ["%s %s" % p for p in panics[:6]]}
        replay["confirmed_on_real_code"] = confirmed
    else:
        replay["note"] = "Kani produced no concrete values for this failure"
    d = os.path.join(REPLAY_DIR, "_".join(sorted(h.props)))
    os.makedirs(d, exist_ok=True)
    path = os.path.join(d, "%s.%s.json" % (unit.crate, h.name))
    with open(path, "w") as f:
        json.dump(replay, f, indent=1)
    o.replay = path
    o.replay_confirmed = confirmed if tests else None


def _uses_stub(unit, h):
    for (_t, hfile, m) in unit.attachments:
        if m == h.mod:
            src = open(hfile).read()
            i = src.find("fn %s(" % h.name)
            return i >= 0 and "#[kani::stub" in src[max(0, i - 400):i]
    return False


def replay_file(unit, path):
    """Re-run a stored Kani counterexample against the current /repo.  Returns True if it
    still fails (violation reproduces)."""
    rp = json.load(open(path))
    if rp.get("native_replay_meaningful") is False:
        # stub-dependent harness: replay = verify that one harness again on the current tree
        hs = [h for h in unit.harnesses if h.name == rp["harness"]]
        if not hs:
            raise Undecided("harness %s no longer exists" % rp["harness"])
        os.environ["VERIF_ONLY"] = rp["harness"]
        obls = run_unit(unit, rp.get("tier", "quick"), want_props=None, logdir=os.path.join(scratch_dir("woodpile-replay-"), "logs"))
        o = [o for o in obls if o.name.endswith(":" + rp["harness"])][0]
        print("  %s %s %s" % (o.status, o.name, o.detail[:300]))
        if o.status == UNDECIDED:
            raise Undecided(o.detail)
        return o.status == VIOLATED
    if not rp.get("tests"):
        raise Undecided("replay file carries no concrete input; obligation: %s" % rp.get("obligation"))
    extra = {rp.get("mod", ""): "\n".join(t["code"] for t in rp["tests"])}
    ws = prepare(unit, rp.get("tier", "quick"), extra_tests=extra)
    rc, out, _ = run(["cargo", "kani", "playback", "-Z", "concrete-playback", "-p", unit.crate] + unit.kani_args +
                     ["--", "kani_concrete_playback"], cwd=ws, timeout=900)
    failed = re.findall(r"test (\S*kani_concrete_playback_\w+) \.\.\. FAILED", out)
    passed = re.findall(r"test (\S*kani_concrete_playback_\w+) \.\.\. ok", out)
    if not failed and not passed:
        raise Undecided("playback did not run: " + out[-1500:])
    panics = re.findall(r"panicked at ([^\n]*)\n([^\n]*)", out)
    if failed and not [p for p in panics if "concrete_playback.rs" not in p[0]]:
        # only the playback driver complained (values left over / missing): the stored input no longer drives the
        # harness down the same path on this tree -- it does not reproduce
        print("  stored values no longer match the harness's path on this tree (playback driver: left-over / missing values)")
        return False
    for l in out.split("\n"):
        if "panicked at" in l or "kani_concrete_playback" in l:
            print("  " + l)
    return bool(failed)
