"""Verus unit: SlidingDeque<Container> (sliding_deque/src/sliding_deque.rs).  C15, generic in the container."""
from verus_engine import VFn, VGhost, VImpl, VItem, VLemma, VTrait, VerusUnit

F = "sliding_deque/src/sliding_deque.rs"
R = {"N1", "N2", "N3", "N4", "N5", "N10"}
IMP = r"impl /^impl<Container: PushTruncateContainer \+ Clone \+ Default> SlidingDeque<Container>/"
IMP_HDR = ("impl<Container: PushTruncateContainer + Clone + Default> SlidingDeque<Container>\n"
           "where\n    <Container as PushTruncateContainer>::Item: Copy,")
COPY_WITHIN = ("N9", ".slice_mut()\n            .copy_within(self.consumed_prefix.., 0);",
               ".slice_mut(), self.consumed_prefix, 0);",
               "`s.copy_within(src.., 0)` -> `slice_copy_within_from(s, src, 0)`: std's method is generic over RangeBounds; the "
               "alias carries the assumed memmove contract")
COPY_WITHIN2 = ("N9", "        self.container\n            .slice_mut(),", "        slice_copy_within_from(self.container\n            .slice_mut(),",
                "(second half of the copy_within alias)")


WHERE = "\nwhere\n    Container: PushTruncateContainer + Clone + Default,\n    <Container as PushTruncateContainer>::Item: Copy,"
VECIMP = r"impl /^impl<T: Copy> PushTruncateContainer for Vec<T>/"
DEREF = r"impl /std::ops::Deref for SlidingDeque/"
DEREF_HDR = "impl<Container> std::ops::Deref for SlidingDeque<Container>" + WHERE
DEREFMUT = r"impl /std::ops::DerefMut for SlidingDeque/"
FROM = r"impl /From<Container> for SlidingDeque/"
FROM_HDR = "impl<Container> From<Container> for SlidingDeque<Container>" + WHERE


def f(name, text, subs=()):
    return VFn(F, [IMP, "fn " + name], name + ".ovl", ["C15"], text, rules=R, subs=subs, name="SlidingDeque::" + name)


SLIDING_DEQUE_VX = VerusUnit(
    name="sliding_deque",
    uses=[],
    keep_visibility=True,
    extra_args=[],
    segments=[
        VGhost("helpers.rs"),
        VTrait(F, ["trait PushTruncateContainer"], "trait.ovl"),
        VItem(F, ["struct SlidingDeque"], keep_derives=()),
        VGhost("spec.rs"),
        VImpl(IMP_HDR, [VFn(F, [DEREF, "fn deref"], "deref.ovl", ["C15"],
                            "requires the read pointer inside the container; ensures the contiguous slice view == view(); "
                            "the slicing cannot go out of bounds", rules=R, name="SlidingDeque::deref",
                            subs=[("N12", "fn deref(&self) -> &Self::Target",
                                   "fn deref__rehomed(&self) -> &[<Container as PushTruncateContainer>::Item]",
                                   "trait-impl method re-homed as an inherent method so that it can carry a precondition; "
                                   "body untouched; the trait method is an assumed-contract stub with the same postcondition")])]),
        VImpl(IMP_HDR, [VFn(F, [DEREFMUT, "fn deref_mut"], "deref_mut.ovl", ["C15"],
                            "requires the read pointer inside the container; the mutable slice view is exactly the view; writes "
                            "through it change the view and nothing else", rules=R, name="SlidingDeque::deref_mut",
                            subs=[("N12", "fn deref_mut(&mut self) -> &mut Self::Target",
                                   "fn deref_mut__rehomed(&mut self) -> &mut [<Container as PushTruncateContainer>::Item]",
                                   "trait-impl method re-homed as an inherent method (see deref)")]),
                        f("front_mut", "None on empty; else a reference to view[0]; a write through it changes exactly view[0]; rep_ok kept"),
                        f("back_mut", "None on empty; else a reference to view.last; a write through it changes exactly that element; rep_ok kept")]),
        VImpl("impl<T: Copy> PushTruncateContainer for Vec<T>", [
            VFn(F, [VECIMP, "fn " + n], "vec_%s.ovl" % n, ["C15"],
                "Vec<T> meets the PushTruncateContainer contract for `%s` (vstd's Vec specification)" % n, rules=R,
                name="<Vec<T> as PushTruncateContainer>::" + n) for n in ("push", "pop", "truncate", "slice", "slice_mut")],
            inner_items=[(F, [VECIMP, "type Item"])], ghost_items=["open spec fn items(&self) -> Seq<T> { self@ }"]),
        VImpl(FROM_HDR, [VFn(F, [FROM, "fn from"], "from.ovl", ["C15"], "ensures rep_ok and view == the container's items",
                             rules=R, name="SlidingDeque::from")]),
        VImpl(IMP_HDR, [
            f("check_rep", "requires rep_ok; both debug assertions hold (never panics)"),
            f("slide", "requires consumed <= backing length; ensures rep_ok, view unchanged, consumed prefix = 0",
              subs=[COPY_WITHIN, COPY_WITHIN2]),
            f("maybe_slide", "requires consumed <= backing length (rep_ok may be broken on entry); ensures rep_ok, view unchanged"),
            f("push_back", "requires rep_ok; ensures rep_ok /\\ view' = view ++ [item]"),
            f("front", "ensures None on empty, else the first element of the view"),
            f("back", "ensures None on empty, else the last element of the view"),
            f("pop_front", "requires rep_ok; ensures rep_ok; None and unchanged on empty, else returns view[0] and view' = view[1..]"),
            f("pop_back", "requires rep_ok; ensures rep_ok; None and unchanged on empty, else returns view.last and view' = view[..last]"),
            f("advance", "requires rep_ok; for EVERY usize count: returns min(count, len), view' = view[ret..], rep_ok"),
            f("clear", "ensures rep_ok, view' = []"),
        ]),
    ],
    lemmas=[],
)

# slide() has a release-only early return (#[cfg(not(debug_assertions))]): verify that configuration as well
SLIDING_DEQUE_VX.extra_configs = [["-C", "debug-assertions=off"]]
