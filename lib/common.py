"""Shared plumbing for the woodpile contract-verification runner.

Nothing in here decides a property.  It holds the data model for obligations,
the scratch-directory discipline, evidence writing and known-findings
filtering.
"""
import atexit
import hashlib
import json
import os
import shutil
import signal
import subprocess
import sys
import tempfile
import time

VERIF = os.path.dirname(os.path.dirname(os.path.abspath(__file__)))
REPO = os.environ.get("VERIF_REPO", "/repo")
EVIDENCE_DIR = os.path.join(VERIF, "evidence")
REPLAY_DIR = os.path.join(VERIF, "replays")
KNOWN_FINDINGS = os.path.join(VERIF, "known_findings.txt")
NCPU = os.cpu_count() or 4

# Obligation status values
DISCHARGED = "discharged"
VIOLATED = "violated"
UNDECIDED = "undecided"


class Undecided(Exception):
    """The machinery could not decide (tool limit, lost anchor, timeout).
    Mapped to exit code 2; never reported as a violation."""


class Obligation:
    """One proof obligation (or group generated from one contract clause).

    name      stable identifier, e.g. "kani:vouched_time:c14_window_contract"
              or "verus:hcobs:EncoderState::consume_once"
    owner     the /repo function the obligation is about
    text      human readable statement of what is required
    props     property ids the obligation carries
    backend   "verus/z3" | "kani/cbmc/cadical" ...
    kind      "proof" (unbounded / complete) or "bounded" (stated bound)
    """

    def __init__(self, name, owner, text, props, backend, kind="proof", bound=None):
        self.name = name
        self.owner = owner
        self.text = text
        self.props = list(props)
        self.backend = backend
        self.kind = kind
        self.bound = bound
        self.status = UNDECIDED
        self.time_s = 0.0
        self.detail = ""      # verifier's message on failure / reason undecided
        self.checks = 0       # low-level verifier checks folded into this obligation
        self.replay = None    # path of replay file when violated
        self.replay_confirmed = None  # True / False / None (no input found)
        self.failed_checks = []

    def to_json(self):
        d = {
            "name": self.name,
            "owner": self.owner,
            "text": self.text,
            "props": self.props,
            "backend": self.backend,
            "kind": self.kind,
            "status": self.status,
            "time_s": round(self.time_s, 3),
            "verifier_checks": self.checks,
        }
        if self.bound:
            d["bound"] = self.bound
        if self.detail:
            d["detail"] = self.detail[:2000]
        if self.replay:
            d["replay"] = self.replay
        return d


_scratch_dirs = []


def scratch_dir(prefix="woodpile-verif-"):
    base = os.environ.get("VERIF_SCRATCH_BASE") or tempfile.gettempdir()
    d = tempfile.mkdtemp(prefix=prefix, dir=base)
    _scratch_dirs.append(d)
    return d


def _cleanup(*_a):
    if os.environ.get("VERIF_KEEP_SCRATCH"):
        return
    while _scratch_dirs:
        shutil.rmtree(_scratch_dirs.pop(), ignore_errors=True)


atexit.register(_cleanup)


def _sig(signum, _frame):
    _cleanup()
    sys.exit(130)


signal.signal(signal.SIGTERM, _sig)
signal.signal(signal.SIGINT, _sig)


def sha256(text):
    return hashlib.sha256(text.encode()).hexdigest()


def _group_rss_gb(pgid):
    """Resident memory of every process in the group, in GB (RLIMIT_AS is useless here: CBMC's solvers reserve far
    more address space than they touch)."""
    total = 0
    try:
        for pid in os.listdir("/proc"):
            if not pid.isdigit():
                continue
            try:
                with open("/proc/%s/stat" % pid) as f:
                    st = f.read()
                fields = st[st.rindex(")") + 2:].split()
                if int(fields[2]) != pgid:   # pgrp
                    continue
                total += int(fields[21]) * 4096   # rss pages
            except (OSError, ValueError, IndexError):
                continue
    except OSError:
        pass
    return total / float(1 << 30)


def run(cmd, cwd=None, env=None, timeout=None, mem_gb=None, log=None):
    """Run a command in its own process group, capture combined output.  Returns (rc, output, wall_s).
    rc == -9 on timeout, -8 when the group's resident memory exceeded mem_gb."""
    e = dict(os.environ)
    e["CARGO_NET_OFFLINE"] = "true"
    if env:
        e.update(env)
    t0 = time.time()
    p = subprocess.Popen(cmd, cwd=cwd, env=e, stdout=subprocess.PIPE, stderr=subprocess.STDOUT,
                         preexec_fn=os.setsid, text=True, errors="replace")
    import threading
    killed = {"why": None}

    def watchdog():
        while p.poll() is None:
            time.sleep(2)
            if timeout and time.time() - t0 > timeout:
                killed["why"] = "timeout"
            elif mem_gb and _group_rss_gb(p.pid) > mem_gb:
                killed["why"] = "memory"
            if killed["why"]:
                try:
                    os.killpg(p.pid, signal.SIGKILL)
                except ProcessLookupError:
                    pass
                return

    th = threading.Thread(target=watchdog, daemon=True)
    th.start()
    out, _ = p.communicate()
    rc = p.returncode
    if killed["why"] == "timeout":
        rc = -9
    elif killed["why"] == "memory":
        rc = -8
    wall = time.time() - t0
    if log:
        with open(log, "w") as f:
            f.write("$ " + " ".join(cmd) + "\n" + out)
    return rc, out, wall


def copy_workspace(dst):
    """rsync /repo's *working tree* (not HEAD) into dst, without build output."""
    os.makedirs(dst, exist_ok=True)
    rc, out, _ = run(["rsync", "-a", "--delete", "--exclude", "/target", "--exclude", "/.git",
                      REPO.rstrip("/") + "/", dst.rstrip("/") + "/"])
    if rc != 0:
        raise Undecided("rsync of /repo failed: " + out[-500:])
    return dst


# ---------------------------------------------------------------------------
# known findings

def load_known_findings():
    """Lines:  open: property=<id> obligation=<name> <what fails>
               fixed: property=<id> <commit> <what failed>
    Only `open:` entries suppress anything, and only the named obligation."""
    open_entries = []
    if os.path.exists(KNOWN_FINDINGS):
        for line in open(KNOWN_FINDINGS):
            line = line.strip()
            if not line or line.startswith("#"):
                continue
            if line.startswith("open:"):
                fields = dict(tok.split("=", 1) for tok in line.split()[1:3] if "=" in tok)
                rest = " ".join(line.split()[3:])
                open_entries.append({"property": fields.get("property"),
                                     "obligation": fields.get("obligation"), "what": rest})
    return open_entries


# ---------------------------------------------------------------------------
# evidence

def write_evidence(prop_id, tier, seed, level, obligations, wall_s, assumptions, trusted_base,
                   checker_cmd, extra=None, violations=0, known_names=()):
    os.makedirs(EVIDENCE_DIR, exist_ok=True)
    all_mine = [o for o in obligations if prop_id in o.props]
    # obligations that ARE an open known finding (known_findings.txt) and failed as recorded are reported apart:
    # they are neither counted as obligations to discharge nor as discharged
    known_failed = [o for o in all_mine if o.name in known_names and o.status == VIOLATED]
    mine = [o for o in all_mine if o not in known_failed]
    discharged = [o for o in mine if o.status == DISCHARGED]
    samples = [
        "%s: %s [%s %.1fs, %s]" % (o.owner, o.text, o.backend, o.time_s, o.status) for o in mine[:12]
    ]
    cov = {
        "obligations": len(mine),
        "discharged": len(discharged),
        "checker_cmd": checker_cmd,
        "trusted_base": trusted_base,
        "samples": samples or ["(none)"],
        "verifier_checks_total": sum(o.checks for o in mine),
        "solver_time_s": round(sum(o.time_s for o in mine), 2),
        "obligation_list": [o.to_json() for o in mine],
        "functions_under_contract": sorted({o.owner for o in mine}),
        "bounded_obligations": [o.name for o in mine if o.kind == "bounded"],
        "proved_obligations": [o.name for o in mine if o.kind == "proof"],
    }
    if level == "model_checking":
        # bounded symbolic checks: one "state space" per harness; the counts
        # below are verifier-reported check counts, measured on this run.
        cov["states"] = max(1, sum(o.checks for o in mine))
        cov["transitions"] = max(1, sum(o.checks for o in mine))
        cov["traces_validated_against_impl"] = sum(1 for o in mine if o.replay_confirmed)
        cov["exhaustive"] = all(o.status == DISCHARGED for o in mine)
    cov["open_known_finding_obligations"] = [o.to_json() for o in known_failed]
    if extra:
        cov.update(extra)
    ev = {
        "property_id": prop_id,
        "tier": tier,
        "seed": seed,
        "level": level,
        "coverage": cov,
        "assumptions": assumptions,
        "wall_s": round(wall_s, 2),
        "violations": violations,
    }
    path = os.path.join(EVIDENCE_DIR, prop_id + ".json")
    tmp = path + ".tmp"
    with open(tmp, "w") as f:
        json.dump(ev, f, indent=1, sort_keys=False)
        f.write("\n")
    os.replace(tmp, path)
    return path
