// Native bounded cross-check for MessageView (C12), appended to rough_tlv/src/decoder.rs (scratch copy) as a child
// module.  Same triple as kc/rough_tlv_decoder.rs (acceptance rule, tiling, accessor agreement), executed on header
// shapes with many pairs.  BOUNDED: N = 0..=NP pairs (NP = @@NP@@); per N: the sorted baseline, every single adjacent
// inversion of tags and of offsets, last offset at / beyond the payload end, truncation at every length; plus @@NR@@
// LCG-drawn headers over a small value alphabet.
use super::*;

const NP: usize = @@NP@@;
const NR: usize = @@NR@@;

fn le32(b: &[u8], at: usize) -> u32 {
    u32::from_le_bytes([b[at], b[at + 1], b[at + 2], b[at + 3]])
}
fn lcg(s: &mut u64) -> u64 {
    *s = s.wrapping_mul(6364136223846793005).wrapping_add(1442695040888963407);
    *s >> 33
}

/// Acceptance rule transcribed from the property statement: at least four bytes, room for the 2N-word header,
/// non-decreasing offsets, non-decreasing tags, last offset inside the payload.
fn format_allows(b: &[u8]) -> bool {
    if b.len() < 4 {
        return false;
    }
    let n = le32(b, 0) as u64;
    if 8 * n > b.len() as u64 {
        return false;
    }
    let n = n as usize;
    if n == 0 {
        return true;
    }
    for i in 1..n.saturating_sub(1) {
        if le32(b, 4 * i) > le32(b, 4 * (i + 1)) {
            return false;
        }
    }
    for i in n..2 * n - 1 {
        if le32(b, 4 * i) > le32(b, 4 * (i + 1)) {
            return false;
        }
    }
    if n >= 2 && 8 * (n as u64) + le32(b, 4 * (n - 1)) as u64 > b.len() as u64 {
        return false;
    }
    true
}

fn hex(b: &[u8]) -> String {
    b.iter().map(|x| format!("{:02x}", x)).collect()
}
fn fail(test: &str, what: &str, b: &[u8]) -> ! {
    println!("VERIF-CEX {} {} bytes={}", test, what, hex(b));
    panic!("{}: {}", test, what);
}

fn message(n: usize, offsets: &[u32], tags: &[u32], payload: usize) -> Vec<u8> {
    let mut b = Vec::new();
    b.extend_from_slice(&(n as u32).to_le_bytes());
    for o in offsets {
        b.extend_from_slice(&o.to_le_bytes());
    }
    for t in tags {
        b.extend_from_slice(&t.to_le_bytes());
    }
    for i in 0..payload {
        b.push(i as u8);
    }
    b
}

// vacuity guard: both verdicts must be frequent in each test
thread_local! { static VERDICTS: std::cell::Cell<(usize, usize)> = std::cell::Cell::new((0, 0)); }
fn verdicts_must_both_be_frequent(test: &str) {
    let (acc, rej) = VERDICTS.with(|v| v.get());
    println!("VERIF-STATS {} accepted={} rejected={}", test, acc, rej);
    assert!(acc >= 200 && rej >= 200, "vacuous test: accepted={} rejected={}", acc, rej);
}

/// One byte string against the whole of C12.
fn check_bytes(test: &str, b: &[u8]) {
    let r = MessageView::new(Cow::Borrowed(b)); // must not panic
    VERDICTS.with(|v| { let (a, r2) = v.get(); v.set(if r.is_ok() { (a + 1, r2) } else { (a, r2 + 1) }) });
    if r.is_ok() != format_allows(b) {
        fail(test, if r.is_ok() { "MessageView::new ACCEPTED bytes the format does not allow" } else { "MessageView::new REJECTED bytes the format allows" }, b);
    }
    let Ok(view) = r else { return };
    let n = le32(b, 0) as usize;
    if view.len() != n || view.is_empty() != (n == 0) {
        fail(test, "len / is_empty disagree with the pair count", b);
    }
    // the values tile the bytes after the header exactly and in order
    let header = if n == 0 { 4 } else { 8 * n };
    let mut at = header;
    for i in 0..n {
        let Some(v) = view.get_value(i) else { fail(test, "get_value(i) is None for i < N", b) };
        if v.as_ptr() != b[at..].as_ptr() {
            fail(test, "values do not tile the bytes after the header (gap or overlap)", b);
        }
        at += v.len();
        match view.get(i) {
            Some((t, v2)) if t.value() == le32(b, 4 * (n + i)) && v2.as_ptr() == v.as_ptr() && v2.len() == v.len() && view.tags()[i] == t => {}
            _ => fail(test, "indexed access disagrees with the tag array / get_value", b),
        }
    }
    if n > 0 && at != b.len() {
        fail(test, "values do not cover the bytes after the header", b);
    }
    let mut i = 0;
    for (t, v) in view.iter() {
        match view.get(i) {
            Some((t2, v2)) if t2 == t && v2.as_ptr() == v.as_ptr() && v2.len() == v.len() => {}
            _ => fail(test, "iteration disagrees with indexed access", b),
        }
        i += 1;
    }
    if i != n {
        fail(test, "iteration length differs from N", b);
    }
    for idx in [n, n + 1, usize::MAX] {
        if view.get_value(idx).is_some() || view.get(idx).is_some() {
            fail(test, "an index >= N yields something", b);
        }
    }
    // the tag array agrees with the one accessor that compares it as a whole: tags_match_exactly(e) <=> e yields exactly the
    // tag array -- for eager (exact size hint) and lazy (no size hint: filter / from_fn) iterators alike
    {
        let tags: Vec<Tag> = view.tags().to_vec();
        let extra = Tag::new_from_u32(0x5a5a_5a5a);
        let mut longer = tags.clone();
        longer.push(extra);
        let lazy = |v: &Vec<Tag>| { let v = v.clone(); let mut k = 0; std::iter::from_fn(move || { k += 1; v.get(k - 1).copied() }) };
        if !view.tags_match_exactly(tags.clone()) || !view.tags_match_exactly(tags.iter().copied().filter(|_| true)) || !view.tags_match_exactly(lazy(&tags)) {
            fail(test, "tags_match_exactly(the tag array) is false", b);
        }
        if view.tags_match_exactly(longer.clone()) || view.tags_match_exactly(longer.iter().copied().filter(|_| true)) || view.tags_match_exactly(lazy(&longer)) {
            fail(test, "tags_match_exactly accepts the tag array followed by one more tag", b);
        }
        if n > 0 {
            let shorter = tags[..n - 1].to_vec();
            let mut changed = tags.clone();
            changed[n - 1] = Tag::new_from_u32(changed[n - 1].value() ^ 1);
            if view.tags_match_exactly(shorter.clone()) || view.tags_match_exactly(lazy(&shorter)) || view.tags_match_exactly(changed.clone()) || view.tags_match_exactly(lazy(&changed)) {
                fail(test, "tags_match_exactly accepts a proper prefix of the tag array, or one with a different last tag", b);
            }
        }
    }
    // a tag lookup returns a value stored under exactly that tag, or nothing when the tag is absent
    for i in 0..n {
        let t = le32(b, 4 * (n + i));
        match view.find(t) {
            Some(v) if (0..n).any(|j| le32(b, 4 * (n + j)) == t && view.get_value(j).map(|x| (x.as_ptr(), x.len())) == Some((v.as_ptr(), v.len()))) => {}
            _ => fail(test, "tag lookup of a present tag did not return a value stored under it", b),
        }
        let absent = t.wrapping_add(1);
        if !(0..n).any(|j| le32(b, 4 * (n + j)) == absent) && view.find(absent).is_some() {
            fail(test, "tag lookup of an absent tag returned something", b);
        }
    }
}

#[test]
fn verif_native_headers_with_many_pairs() {
    let t = "verif_native_headers_with_many_pairs";
    for n in 0..=NP {
        let payload = 4 * n + 3;
        // baseline: offsets 4, 8, ... (with a repeated one), tags in pairs of ties
        let offsets: Vec<u32> = (1..n).map(|i| 4 * (i as u32 - (i as u32) % 2)).collect();
        let tags: Vec<u32> = (0..n).map(|i| 10 + (i as u32) / 2).collect();
        let base = message(n, &offsets, &tags, payload);
        check_bytes(t, &base);
        // truncation at every length
        for cut in 0..base.len() {
            check_bytes(t, &base[..cut]);
        }
        // every single adjacent inversion of the tags
        for i in 0..n.saturating_sub(1) {
            let mut tg = tags.clone();
            tg[i] = tg[i + 1] + 1;
            check_bytes(t, &message(n, &offsets, &tg, payload));
            let mut tg = tags.clone();
            tg[i + 1] = 0;
            check_bytes(t, &message(n, &offsets, &tg, payload));
        }
        // every single adjacent inversion of the offsets
        for i in 0..offsets.len().saturating_sub(1) {
            let mut of = offsets.clone();
            of[i] = of[i + 1] + 1;
            check_bytes(t, &message(n, &of, &tags, payload));
        }
        // last offset at, just inside and beyond the payload end
        if n >= 2 {
            for last in [payload as u32 - 1, payload as u32, payload as u32 + 1, u32::MAX] {
                let mut of = offsets.clone();
                let k = of.len() - 1;
                of[k] = last;
                check_bytes(t, &message(n, &of, &tags, payload));
            }
        }
        // a pair count larger than the buffer, and near 2^32
        for big in [n as u32 + (payload as u32 + 8 * n as u32) / 8 + 1, u32::MAX, 1 << 31, (1 << 29) + n as u32] {
            let mut b = base.clone();
            b[..4].copy_from_slice(&big.to_le_bytes());
            check_bytes(t, &b);
        }
    }
    verdicts_must_both_be_frequent(t);
}

#[test]
fn verif_native_random_headers() {
    let t = "verif_native_random_headers";
    let mut seed = 0xA076_1D64_78BD_642Fu64;
    for _ in 0..NR {
        let n = (lcg(&mut seed) % (NP as u64 + 1)) as usize;
        let payload = (lcg(&mut seed) % 24) as usize;
        // mostly sorted words with a few perturbations, so that both verdicts are frequent
        let mut offsets: Vec<u32> = (1..n).map(|i| ((i * payload) / n.max(1)) as u32).collect();
        let mut tags: Vec<u32> = (0..n).map(|i| (i as u32) / (1 + (lcg(&mut seed) % 3) as u32)).collect();
        tags.sort();
        for _ in 0..(lcg(&mut seed) % 3) {
            if n > 0 {
                let i = (lcg(&mut seed) % n as u64) as usize;
                tags[i] = (lcg(&mut seed) % (n as u64 + 2)) as u32;
            }
            if !offsets.is_empty() {
                let i = (lcg(&mut seed) % offsets.len() as u64) as usize;
                offsets[i] = (lcg(&mut seed) % (payload as u64 + 3)) as u32;
            }
        }
        let mut b = message(n, &offsets, &tags, payload);
        let cut = lcg(&mut seed) % 4 == 0;
        if cut {
            let l = (lcg(&mut seed) % (b.len() as u64 + 1)) as usize;
            b.truncate(l);
        }
        check_bytes(t, &b);
    }
    verdicts_must_both_be_frequent(t);
}
