// Native bounded cross-check for SortedDeque (C16), appended to sliding_deque/src/sorted_deque.rs (scratch copy) as a
// child module.  Same triple as kc/sorted_deque.rs (every operation against a reference ordered map = BTreeMap of the
// live items), executed on more keys than the Kani bound affords (runs of logically deleted items separated by live
// ones need >= 5 physical items).  Both provided item conventions.
// BOUNDED: n = 0..=NK keys (NK = @@NK@@), EVERY subset of removed keys x 3 removal orders x 4 drain patterns, all
// observations after every step; plus @@NR@@ LCG-drawn operation sequences of length 48 over 16 keys.
use super::*;
use std::collections::BTreeMap;

const NK: u32 = @@NK@@;
const NR: usize = @@NR@@;

fn lcg(s: &mut u64) -> u64 {
    *s = s.wrapping_mul(6364136223846793005).wrapping_add(1442695040888963407);
    *s >> 33
}

/// The two provided item conventions behind one interface.
trait Conv {
    type Item: Copy + PartialEq + std::fmt::Debug;
    type Key;
    fn item(k: u32, v: u32) -> Self::Item;      // a live item
    fn erased(k: u32) -> Self::Item;            // an already-erased item
    fn key_of_live(k: u32, v: u32) -> Self::Key; // the lookup key that denotes the live item (k, v)
    fn probe(k: u32) -> Self::Key;              // a lookup key for key k that may or may not denote a stored item
    fn probe_hits(k: u32, v: u32) -> bool;      // does probe(k) denote the live item (k, v)?
}
struct Pairs;
impl Conv for Pairs {
    type Item = (u32, Option<u32>);
    type Key = u32;
    fn item(k: u32, v: u32) -> Self::Item { (k, Some(v)) }
    fn erased(k: u32) -> Self::Item { (k, None) }
    fn key_of_live(k: u32, _v: u32) -> u32 { k }
    fn probe(k: u32) -> u32 { k }
    fn probe_hits(_k: u32, _v: u32) -> bool { true }
}
struct Wholes;
impl Conv for Wholes {
    type Item = TestItem;
    type Key = TestItem;
    fn item(k: u32, v: u32) -> TestItem { TestItem { key: k, value: Some(v.try_into().unwrap()) } }
    fn erased(k: u32) -> TestItem { TestItem { key: k, value: None } }
    fn key_of_live(k: u32, v: u32) -> TestItem { Self::item(k, v) }
    // whole-item ordering: a probe with another value denotes no stored item
    fn probe(k: u32) -> TestItem { Self::item(k, 7) }
    fn probe_hits(_k: u32, v: u32) -> bool { v == 7 }
}

struct Run<C: Conv>
where
    (): SortedDequeMarker<C::Item, Key = C::Key>,
{
    test: &'static str,
    d: SortedDeque<Vec<C::Item>>,
    m: BTreeMap<u32, u32>,
    log: Vec<String>,
    universe: u32,
}
fn val(k: u32) -> u32 { 10 * k + 1 }
// vacuity guard: the number of full observations made by a test
thread_local! { static OBSERVATIONS: std::cell::Cell<usize> = std::cell::Cell::new(0); }
fn observations_at_least(test: &str, n: usize) {
    let got = OBSERVATIONS.with(|c| c.get());
    println!("VERIF-STATS {} observations={}", test, got);
    assert!(got >= n, "vacuous test: only {} observations", got);
}

impl<C: Conv> Run<C>
where
    (): SortedDequeMarker<C::Item, Key = C::Key>,
{
    fn new(test: &'static str, universe: u32) -> Self {
        Run { test, d: Default::default(), m: BTreeMap::new(), log: Vec::new(), universe }
    }
    fn fail(&self, what: &str) -> ! {
        println!("VERIF-CEX {} {} convention={} ops=[{}]", self.test, what, std::any::type_name::<C>(), self.log.join(", "));
        panic!("{}: {}", self.test, what);
    }
    /// every observation the property lists, against the reference map
    fn observe(&self) {
        OBSERVATIONS.with(|c| c.set(c.get() + 1));
        let live: Vec<C::Item> = self.m.iter().map(|(k, v)| C::item(*k, *v)).collect();
        let got: Vec<C::Item> = self.d.iter().copied().collect();
        if got != live {
            self.fail(&format!("iteration {:?} differs from the reference map {:?}", got, live));
        }
        if self.d.is_empty() != live.is_empty() {
            self.fail("is_empty disagrees with the reference map");
        }
        if self.d.first().copied() != live.first().copied() || self.d.last().copied() != live.last().copied() {
            self.fail("first/last are not the smallest/largest present items");
        }
        for k in 0..=self.universe {
            let want = self.m.get(&k).map(|v| C::item(k, *v));
            if let Some(v) = self.m.get(&k) {
                if self.d.find(&C::key_of_live(k, *v)).copied() != want {
                    self.fail(&format!("present key {} not found with its value", k));
                }
            }
            let expect = match self.m.get(&k) { Some(v) if C::probe_hits(k, *v) => want, _ => None };
            if self.d.find(&C::probe(k)).copied() != expect {
                self.fail(&format!("find(probe {}) disagrees with the reference map", k));
            }
        }
    }
    fn push(&mut self, k: u32) {
        self.log.push(format!("push {}", k));
        self.d.push_back_or_panic(C::item(k, val(k)));
        self.m.insert(k, val(k));
        self.observe();
    }
    fn push_erased(&mut self, k: u32) {
        self.log.push(format!("push-erased {}", k));
        self.d.push_back_or_panic(C::erased(k)); // a no-op
        self.observe();
    }
    fn remove(&mut self, k: u32) {
        self.log.push(format!("remove {}", k));
        let want = self.m.remove(&k).map(|v| C::item(k, v));
        let key = match want { Some(_) => C::key_of_live(k, val(k)), None => C::probe(k) };
        let got = self.d.remove(&key);
        if got != want {
            self.fail(&format!("remove({}) returned {:?}, reference map says {:?}", k, got, want));
        }
        self.observe();
    }
    fn pop_first(&mut self) {
        self.log.push("pop_first".to_string());
        let want = self.m.iter().next().map(|(k, v)| (*k, *v));
        if let Some((k, _)) = want { self.m.remove(&k); }
        let got = self.d.pop_first();
        if got != want.map(|(k, v)| C::item(k, v)) {
            self.fail(&format!("pop_first returned {:?}", got));
        }
        self.observe();
    }
    fn pop_last(&mut self) {
        self.log.push("pop_last".to_string());
        let want = self.m.iter().next_back().map(|(k, v)| (*k, *v));
        if let Some((k, _)) = want { self.m.remove(&k); }
        let got = self.d.pop_last();
        if got != want.map(|(k, v)| C::item(k, v)) {
            self.fail(&format!("pop_last returned {:?}", got));
        }
        self.observe();
    }
    fn clear(&mut self) {
        self.log.push("clear".to_string());
        self.d.clear();
        self.m.clear();
        self.observe();
    }
}

fn subsets<C: Conv>(test: &'static str)
where
    (): SortedDequeMarker<C::Item, Key = C::Key>,
{
    let mut seed = 0x2545_F491_4F6C_DD1Du64;
    for n in 0..=NK {
        for mask in 0u32..(1 << n) {
            for order in 0..3 {
                for drain in 0..4 {
                    let mut r = Run::<C>::new(test, n + 2);
                    for k in 0..n {
                        r.push(k);
                    }
                    let mut ks: Vec<u32> = (0..n).filter(|k| mask >> k & 1 == 1).collect();
                    match order {
                        0 => {}
                        1 => ks.reverse(),
                        _ => {
                            for i in (1..ks.len()).rev() {
                                let j = (lcg(&mut seed) % (i as u64 + 1)) as usize;
                                ks.swap(i, j);
                            }
                        }
                    }
                    for k in ks {
                        r.remove(k);
                    }
                    if drain == 3 {
                        // keep using it: erased pushes are no-ops, new keys go to the back
                        r.push_erased(n);
                        r.push(n);
                        r.push(n + 1);
                    }
                    let mut step = 0;
                    while !r.m.is_empty() {
                        match drain {
                            0 => r.pop_first(),
                            1 => r.pop_last(),
                            2 => if step % 2 == 0 { r.pop_first() } else { r.pop_last() },
                            _ => {
                                let k = *r.m.keys().next().unwrap();
                                r.remove(k) // removal of the front key goes through pop_first
                            }
                        }
                        step += 1;
                    }
                    r.pop_first();
                    r.pop_last();
                }
            }
        }
    }
}

#[test]
fn verif_native_every_removal_subset_pairs() {
    subsets::<Pairs>("verif_native_every_removal_subset_pairs");
    observations_at_least("verif_native_every_removal_subset_pairs", 100_000);
}
#[test]
fn verif_native_every_removal_subset_whole_items() {
    subsets::<Wholes>("verif_native_every_removal_subset_whole_items");
    observations_at_least("verif_native_every_removal_subset_whole_items", 100_000);
}

fn random_ops<C: Conv>(test: &'static str)
where
    (): SortedDequeMarker<C::Item, Key = C::Key>,
{
    let mut seed = 0x9FB2_1C65_1E98_DF25u64;
    for _ in 0..NR {
        let mut r = Run::<C>::new(test, 17);
        let mut next = 0u32;
        for _ in 0..48 {
            match lcg(&mut seed) % 16 {
                0..=5 if next < 16 => {
                    r.push(next);
                    next += 1 + (lcg(&mut seed) % 2) as u32;
                }
                6..=10 => r.remove((lcg(&mut seed) % 17) as u32),
                11 | 12 => r.pop_first(),
                13 | 14 => r.pop_last(),
                15 if lcg(&mut seed) % 8 == 0 => r.clear(),
                _ => r.push_erased(next),
            }
        }
    }
}
#[test]
fn verif_native_random_operation_sequences() {
    random_ops::<Pairs>("verif_native_random_operation_sequences");
    random_ops::<Wholes>("verif_native_random_operation_sequences");
    observations_at_least("verif_native_random_operation_sequences", 100_000);
}

/// Pushing a key that is not strictly greater than the current last item panics.
#[test]
fn verif_native_push_not_greater_panics() {
    let t = "verif_native_push_not_greater_panics";
    for n in 1..=6u32 {
        for bad in 0..n {
            let r = std::panic::catch_unwind(|| {
                let mut d: SortedDeque<Vec<(u32, Option<u32>)>> = Default::default();
                for k in 0..n {
                    d.push_back_or_panic((k, Some(k)));
                }
                d.push_back_or_panic((bad, Some(0)));
            });
            if r.is_ok() {
                println!("VERIF-CEX {} pushing key {} after keys 0..{} did not panic", t, bad, n);
                panic!("{}", t);
            }
        }
    }
}
