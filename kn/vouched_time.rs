// Native bounded cross-check for VouchedTime (C14), appended to vouched_time/src/lib.rs (scratch copy) as a child
// module.  Same triple as kc/vouched_time.rs c14_check_composition -- Ok <=> the voucher vouches for the base time,
// the local time is not before the Unix epoch, and local - base is in [-59900 ms, +2990 ms], no wrap-around -- but with
// REAL vouchers (the repository's test vouching parameters) instead of a stubbed verdict, so that a failure is a
// concrete input of the public API.  BOUNDED: the local times and base-time offsets listed below.
use super::*;
use time::{Date, Month, PrimitiveDateTime, Time};

const VOUCH: &str = "VOUCH-773ec2a0e62c20cd-f9e079b78e895091-fc1da7b1b77c57cb-594b9cce3091464a";
const OTHER: &str = "VOUCH-d165ec246b320939-2067990c3fc0f62d-309ee23efd609c4b-45b19da4a316ca0e";

fn dt(y: i32, m: Month, d: u8, h: u8, mi: u8, s: u8, n: u32) -> PrimitiveDateTime {
    PrimitiveDateTime::new(Date::from_calendar_date(y, m, d).unwrap(), Time::from_hms_nano(h, mi, s, n).unwrap())
}
fn from_nanos(ns: i128) -> PrimitiveDateTime {
    let t = time::OffsetDateTime::from_unix_timestamp_nanos(ns).unwrap();
    PrimitiveDateTime::new(t.date(), t.time())
}

fn local_times() -> Vec<PrimitiveDateTime> {
    let mut v = vec![
        // the epoch and its neighbours, down to the nanosecond
        dt(1970, Month::January, 1, 0, 0, 0, 0),
        dt(1970, Month::January, 1, 0, 0, 0, 1),
        dt(1970, Month::January, 1, 0, 0, 0, 999_999),
        dt(1970, Month::January, 1, 0, 0, 0, 1_000_000),
        dt(1969, Month::December, 31, 23, 59, 59, 999_999_999),
        dt(1969, Month::December, 31, 23, 59, 59, 999_500_000),
        dt(1969, Month::December, 31, 23, 59, 59, 999_000_001),
        dt(1969, Month::December, 31, 23, 59, 59, 999_000_000),
        dt(1969, Month::December, 31, 23, 59, 57, 0),
        // around the window width after the epoch
        dt(1970, Month::January, 1, 0, 0, 2, 990_000_000),
        dt(1970, Month::January, 1, 0, 0, 2, 990_000_001),
        dt(1970, Month::January, 1, 0, 0, 2, 990_999_999),
        dt(1970, Month::January, 1, 0, 0, 2, 991_000_000),
        dt(1970, Month::January, 1, 0, 0, 59, 900_000_000),
        dt(1970, Month::January, 1, 0, 1, 0, 0),
        // the test suite's era, with and without sub-millisecond parts
        dt(2024, Month::April, 13, 17, 0, 59, 0),
        dt(2024, Month::April, 13, 17, 1, 1, 990_000_000),
        dt(2024, Month::April, 13, 16, 59, 59, 99_999_999),
        // calendar limits
        PrimitiveDateTime::MIN,
        PrimitiveDateTime::MAX,
        dt(9999, Month::December, 31, 23, 59, 59, 999_000_000),
        dt(2300, Month::January, 1, 0, 0, 0, 0),
    ];
    // powers of two in nanoseconds (where narrower integer types wrap) and their neighbours
    for bits in [31u32, 32, 53, 62, 63, 64, 65] {
        for d in [-1_000_001i128, -1, 0, 1, 1_000_000] {
            v.push(from_nanos((1i128 << bits) + d));
        }
    }
    // powers of two in milliseconds
    for bits in [31u32, 32, 47] {
        for d in [-1i128, 0, 1] {
            v.push(from_nanos(((1i128 << bits) + d) * 1_000_000));
        }
    }
    v
}

#[test]
fn verif_native_window_edges_with_real_vouchers() {
    let t = "verif_native_window_edges_with_real_vouchers";
    let params = raffle::VouchingParameters::parse_or_die(VOUCH);
    let other = raffle::VouchingParameters::parse_or_die(OTHER);
    let (mut accepted, mut rejected) = (0usize, 0usize);
    for local in local_times() {
        let nanos: i128 = local.assume_utc().unix_timestamp_nanos();
        let ms: i128 = nanos.div_euclid(1_000_000); // the millisecond the instant falls in
        let mut bases: Vec<i128> = vec![0, 1, 2_989, 2_990, 2_991, 59_899, 59_900, 59_901, u64::MAX as i128, u64::MAX as i128 - 59_900,
                                        i64::MAX as i128, i64::MAX as i128 + 1, u32::MAX as i128, u32::MAX as i128 + 1];
        for w in [-59_902i128, -59_901, -59_900, -59_899, -1, 0, 1, 2_989, 2_990, 2_991, 2_992] {
            bases.push(ms - w); // local - base == w
            bases.push(ms - w + (1i128 << 64)); // ... modulo 2^64, from either side
            bases.push(ms - w - (1i128 << 64));
            bases.push(ms - w + (1i128 << 63));
            bases.push(ms - w + (1i128 << 32));
        }
        for b in bases {
            if b < 0 || b > u64::MAX as i128 {
                continue;
            }
            let base = b as u64;
            let expect = nanos >= 0 && ms <= u64::MAX as i128 && (-59_900..=2_990).contains(&(ms - b));
            let r = VouchedTime::new(local, base, params.vouch(base));
            if r.is_ok() != expect {
                println!("VERIF-CEX {} VouchedTime::new(local={} [{} ns since the epoch], base_time_ms={}, valid voucher) returned {}, the rule says {}",
                         t, local, nanos, base, if r.is_ok() { "Ok" } else { "Err" }, if expect { "Ok" } else { "Err" });
                panic!("{}", t);
            }
            if let Ok(v) = r {
                accepted += 1;
                if v.get_local_time() != local {
                    println!("VERIF-CEX {} a constructed VouchedTime reports {} instead of the local time it was built from, {}", t, v.get_local_time(), local);
                    panic!("{}", t);
                }
                // a voucher for another value, or from other parameters, is not accepted
                if VouchedTime::new(local, base, params.vouch(base ^ 1)).is_ok() || VouchedTime::new(local, base, other.vouch(base)).is_ok() {
                    println!("VERIF-CEX {} VouchedTime::new(local={}, base_time_ms={}) accepted a voucher that does not vouch for the base time", t, local, base);
                    panic!("{}", t);
                }
            } else {
                rejected += 1;
            }
        }
    }
    println!("VERIF-STATS {} accepted={} rejected={}", t, accepted, rejected);
    assert!(accepted >= 200 && rejected >= 1000, "vacuous: accepted={} rejected={}", accepted, rejected);
}

/// now() applies the same rule to the current clock: the provider is handed the clock reading, answers with a base
/// time at a chosen distance from it (real voucher), and now() must accept exactly the distances inside the window
/// and report exactly the clock reading it handed out.  The real clock is used: whatever it reads, the rule is exact
/// at nanosecond resolution, so this cannot flake on a correct implementation.
#[test]
fn verif_native_now_uses_the_clock_reading() {
    let t = "verif_native_now_uses_the_clock_reading";
    let params = raffle::VouchingParameters::parse_or_die(VOUCH);
    let other = raffle::VouchingParameters::parse_or_die(OTHER);
    let mut accepted = 0usize;
    for round in 0..40 {
        for w in [-59_901i128, -59_900, -59_899, -1, 0, 1, 2_989, 2_990, 2_991] {
            let mut seen: Option<time::OffsetDateTime> = None;
            let r = VouchedTime::now(|clock| {
                seen = Some(clock);
                let ms = clock.unix_timestamp_nanos().div_euclid(1_000_000);
                let base = (ms - w) as u64; // clock - base == w milliseconds
                Ok((base, params.vouch(base)))
            });
            let clock = seen.expect("the provider is called");
            let expect = (-59_900..=2_990).contains(&w);
            if r.is_ok() != expect {
                println!("VERIF-CEX {} now() with the clock at {} and a base time {} ms {} it returned {}, the rule says {}", t, clock,
                         w.abs(), if w >= 0 { "behind" } else { "ahead of" }, if r.is_ok() { "Ok" } else { "Err" }, if expect { "Ok" } else { "Err" });
                panic!("{}", t);
            }
            if let Ok(v) = r {
                accepted += 1;
                let local = v.get_local_time();
                if local != PrimitiveDateTime::new(clock.date(), clock.time()) {
                    println!("VERIF-CEX {} now() read the clock at {} but the value reports {}", t, clock, local);
                    panic!("{}", t);
                }
            }
            // "the same rule": the voucher half too.  A provider that answers with a base time inside the window but a voucher
            // for another value, or one made under other parameters, must be refused exactly as new() refuses it.
            if expect {
                for bad in 0..2 {
                    let r = VouchedTime::now(|clock| {
                        let ms = clock.unix_timestamp_nanos().div_euclid(1_000_000);
                        let base = (ms - w) as u64;
                        Ok((base, if bad == 0 { params.vouch(base ^ 1) } else { other.vouch(base) }))
                    });
                    if r.is_ok() {
                        println!("VERIF-CEX {} now() accepted a base time {} ms from the clock with a voucher {}", t, w,
                                 if bad == 0 { "for another value" } else { "made under other parameters" });
                        panic!("{}", t);
                    }
                }
            }
        }
        if round % 8 == 0 {
            std::thread::sleep(std::time::Duration::from_micros(137));
        }
    }
    assert!(accepted >= 200, "vacuous: accepted={}", accepted);
}
