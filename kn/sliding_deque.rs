// Native bounded cross-check for SlidingDeque (C15), appended to sliding_deque/src/sliding_deque.rs (scratch copy)
// as a child module.  The Verus unit proves every operation for ANY container that meets the PushTruncateContainer
// contract, and proves that Vec does; that SmallVec does is only checked by Kani on containers of <= 3 elements
// (CBMC runs out of memory beyond) -- i.e. never after a spill to the heap has grown.  This runs the reference-deque
// triple on real SmallVec backings through inline -> heap transitions.
// BOUNDED: fill/drain sweeps up to NF = @@NF@@ elements and @@NR@@ LCG-drawn operation sequences of length 200, on Vec and
// SmallVec<[u32; 1]>, <[u32; 4]>, <[u32; 8]>; after EVERY operation the slice view equals the reference VecDeque.
use super::*;
use std::collections::VecDeque;

const NF: usize = @@NF@@;
const NR: usize = @@NR@@;

fn lcg(s: &mut u64) -> u64 {
    *s = s.wrapping_mul(6364136223846793005).wrapping_add(1442695040888963407);
    *s >> 33
}

struct Run<C: PushTruncateContainer<Item = u32> + Clone + Default> {
    test: &'static str,
    kind: &'static str,
    d: SlidingDeque<C>,
    m: VecDeque<u32>,
    log: Vec<String>,
    next: u32,
}
impl<C: PushTruncateContainer<Item = u32> + Clone + Default> Run<C> {
    fn new(test: &'static str, kind: &'static str) -> Self {
        Run { test, kind, d: SlidingDeque::new(), m: VecDeque::new(), log: Vec::new(), next: 0 }
    }
    fn fail(&self, what: &str) -> ! {
        println!("VERIF-CEX {} {} backing={} ops=[{}]", self.test, what, self.kind, self.log.join(", "));
        panic!("{}: {}", self.test, what);
    }
    fn observe(&self) {
        let view: &[u32] = &self.d;
        if view.iter().copied().ne(self.m.iter().copied()) {
            self.fail(&format!("slice view {:?} differs from the reference deque {:?}", view, self.m));
        }
        if self.d.front().copied() != self.m.front().copied() || self.d.back().copied() != self.m.back().copied()
            || self.d.len() != self.m.len() || self.d.is_empty() != self.m.is_empty() {
            self.fail("front / back / len / is_empty differ from the reference deque");
        }
    }
    fn push(&mut self) {
        self.log.push("push_back".into());
        self.d.push_back(self.next);
        self.m.push_back(self.next);
        self.next += 1;
        self.observe();
    }
    fn pop_front(&mut self) {
        self.log.push("pop_front".into());
        if self.d.pop_front() != self.m.pop_front() {
            self.fail("pop_front returned a different item");
        }
        self.observe();
    }
    fn pop_back(&mut self) {
        self.log.push("pop_back".into());
        if self.d.pop_back() != self.m.pop_back() {
            self.fail("pop_back returned a different item");
        }
        self.observe();
    }
    fn advance(&mut self, count: usize) {
        self.log.push(format!("advance({})", count));
        let want = count.min(self.m.len());
        let got = self.d.advance(count);
        self.m.drain(..want);
        if got != want {
            self.fail(&format!("advance returned {} instead of {}", got, want));
        }
        self.observe();
    }
    fn write_ends(&mut self) {
        self.log.push("write through front_mut / back_mut".into());
        if let Some(x) = self.d.front_mut() { *x ^= 0x8000_0000; }
        if let Some(x) = self.m.front_mut() { *x ^= 0x8000_0000; }
        if let Some(x) = self.d.back_mut() { *x ^= 0x4000_0000; }
        if let Some(x) = self.m.back_mut() { *x ^= 0x4000_0000; }
        self.observe();
    }
    fn clear(&mut self) {
        self.log.push("clear".into());
        self.d.clear();
        self.m.clear();
        self.observe();
    }
}

fn sweep<C: PushTruncateContainer<Item = u32> + Clone + Default>(test: &'static str, kind: &'static str) {
    // fill to n, then drain by k at a time through each draining operation
    for n in 0..=NF {
        for k in [1usize, 2, 3, 5, 9, 17, usize::MAX] {
            for how in 0..3 {
                if k > n + 1 && k != usize::MAX {
                    continue;
                }
                let mut r = Run::<C>::new(test, kind);
                for _ in 0..n {
                    r.push();
                }
                let mut guard = 0;
                while !r.m.is_empty() && guard < 4 * NF + 8 {
                    guard += 1;
                    match how {
                        0 => r.advance(k),
                        1 => { for _ in 0..k.min(3) { r.pop_front(); } }
                        _ => { r.pop_front(); r.pop_back(); r.write_ends(); }
                    }
                }
                r.advance(usize::MAX);
                r.push();
                r.clear();
            }
        }
    }
}
fn random<C: PushTruncateContainer<Item = u32> + Clone + Default>(test: &'static str, kind: &'static str) {
    let mut seed = 0xC2B2_AE3D_27D4_EB4Fu64;
    for _ in 0..NR {
        let mut r = Run::<C>::new(test, kind);
        let bias = lcg(&mut seed) % 3; // growing, steady, shrinking phases
        for step in 0..200 {
            let phase = (step / 50 + bias as usize) % 3;
            let x = lcg(&mut seed) % 16;
            match (phase, x) {
                (0, 0..=10) | (1, 0..=6) | (2, 0..=3) => r.push(),
                (_, 11) => r.pop_back(),
                (_, 12) => r.write_ends(),
                (_, 13) => r.advance((lcg(&mut seed) % 24) as usize),
                (_, 14) if lcg(&mut seed) % 16 == 0 => r.clear(),
                (_, 15) if lcg(&mut seed) % 8 == 0 => r.advance(usize::MAX - (lcg(&mut seed) % 3) as usize),
                _ => r.pop_front(),
            }
        }
    }
}

#[test]
fn verif_native_fill_and_drain_every_backing() {
    let t = "verif_native_fill_and_drain_every_backing";
    sweep::<Vec<u32>>(t, "Vec<u32>");
    sweep::<smallvec::SmallVec<[u32; 1]>>(t, "SmallVec<[u32; 1]>");
    sweep::<smallvec::SmallVec<[u32; 4]>>(t, "SmallVec<[u32; 4]>");
    sweep::<smallvec::SmallVec<[u32; 8]>>(t, "SmallVec<[u32; 8]>");
}
#[test]
fn verif_native_random_operations_every_backing() {
    let t = "verif_native_random_operations_every_backing";
    random::<Vec<u32>>(t, "Vec<u32>");
    random::<smallvec::SmallVec<[u32; 1]>>(t, "SmallVec<[u32; 1]>");
    random::<smallvec::SmallVec<[u32; 4]>>(t, "SmallVec<[u32; 4]>");
    random::<smallvec::SmallVec<[u32; 8]>>(t, "SmallVec<[u32; 8]>");
}
