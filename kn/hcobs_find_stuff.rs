// Native bounded cross-check for find_stuff_sequence (C02, C07; ASSUMED by the Verus hcobs unit), appended to
// hcobs/src/lib.rs (scratch copy) as a child module.  Same triple as kc/hcobs.rs c07_find_stuff_sequence_bounded
// (Some(i) <=> i is the FIRST index with FE FD), executed on lengths beyond any block size a blocked or SWAR scan
// would use.  BOUNDED: every length 0..=NL (NL = @@NL@@) x 6 backgrounds x {no pair, FE FD at every position, a lone FE
// at every position, a lone FD at every position, two pairs at distance 2..=17, 31..33, 63..65}.
use super::*;

const NL: usize = @@NL@@;

fn reference(b: &[u8]) -> Option<usize> {
    (0..b.len().saturating_sub(1)).find(|&i| b[i] == 0xFE && b[i + 1] == 0xFD)
}
fn check(b: &[u8]) {
    check_named("verif_native_find_stuff_sequence_positions", b)
}
fn check_named(test: &str, b: &[u8]) {
    let got = find_stuff_sequence(b);
    let want = reference(b);
    if got != want {
        let hex: String = b.iter().map(|x| format!("{:02x}", x)).collect();
        println!("VERIF-CEX {} find_stuff_sequence returned {:?}, first FE FD is at {:?}: len={} bytes={}",
                 test, got, want, b.len(), hex);
        panic!("find_stuff_sequence disagrees with its contract");
    }
}

#[test]
fn verif_native_find_stuff_sequence_positions() {
    for len in 0..=NL {
        for bg in 0..6 {
            let base: Vec<u8> = (0..len)
                .map(|i| match bg {
                    0 => 0x00,
                    1 => 0xFE,
                    2 => 0xFD,
                    3 => if i % 2 == 0 { 0xFD } else { 0xFE },   // FD FE FD FE: pairs at odd offsets
                    4 => 0xFF,
                    _ => (i as u8).wrapping_mul(37),
                })
                .collect();
            check(&base);
            for p in 0..len {
                let mut v = base.clone();
                v[p] = 0xFE;
                check(&v);
                let mut v = base.clone();
                v[p] = 0xFD;
                check(&v);
                if p + 1 < len {
                    let mut v = base.clone();
                    v[p] = 0xFE;
                    v[p + 1] = 0xFD;
                    check(&v);
                    // a second pair at every small distance, and around 32 / 64, further on
                    for d in (2usize..=17).chain([31, 32, 33, 63, 64, 65]) {
                        if p + d + 1 < len {
                            let mut w = v.clone();
                            w[p + d] = 0xFE;
                            w[p + d + 1] = 0xFD;
                            check(&w);
                        }
                    }
                }
            }
        }
    }
}

const NW: usize = @@NW@@;

#[test]
fn verif_native_find_stuff_sequence_windows() {
    let t = "verif_native_find_stuff_sequence_windows";
    const A: [u8; 5] = [0x00, 0xFC, 0xFD, 0xFE, 0xFF];
    let lens = (0..=NW).chain([63usize, 64, 65, 66, 127, 128, 129, 130, 255, 256, 257]);
    for len in lens {
        for bg in 0..3 {
            let base: Vec<u8> = (0..len).map(|i| match bg { 0 => 0x00, 1 => 0xFF, _ => (i as u8).wrapping_mul(101) }).collect();
            for p in 0..len {
                for a in A {
                    for b in A {
                        for c in A {
                            let mut v = base.clone();
                            v[p] = a;
                            if p + 1 < len {
                                v[p + 1] = b;
                            }
                            if p + 2 < len {
                                v[p + 2] = c;
                            }
                            check_named(t, &v);
                        }
                    }
                }
            }
        }
    }
}
