// Native bounded cross-check for MessageWrapper (C11), appended to rough_tlv/src/encoder.rs (scratch copy) as a
// child module.  Same triple as the Kani harnesses in kc/rough_tlv_encoder.rs (layout, emitted length, round
// trip through MessageView), executed on pair counts the bounded model checker cannot afford: the standard
// sorts change algorithm above ~20 elements, so "ties in insertion order" needs lists longer than that.
// BOUNDED: n = 0..=NP pairs (NP = @@NP@@), 7 tag patterns x 3 value-length patterns, plus @@NR@@ LCG-drawn lists.
use super::*;
use crate::MessageView;
use std::borrow::Cow;

const NP: usize = @@NP@@;
const NR: usize = @@NR@@;

struct Rec {
    buf: Vec<u8>,
    borrowed: usize,
}
impl<'a> ZeroCopySink<'a> for Rec {
    fn append_copy(&mut self, bytes: &[u8]) {
        self.buf.extend_from_slice(bytes)
    }
    fn append_borrow(&mut self, bytes: &'a [u8]) {
        self.borrowed += 1;
        self.buf.extend_from_slice(bytes)
    }
}

fn lcg(s: &mut u64) -> u64 {
    *s = s.wrapping_mul(6364136223846793005).wrapping_add(1442695040888963407);
    *s >> 33
}

/// The Roughtime layout, transcribed from the property statement: pair count, N-1 cumulative end offsets, N tags
/// ascending with ties in insertion order (insertion sort of the indices), values concatenated.
fn stable_order(tags: &[u32]) -> Vec<usize> {
    let mut ord: Vec<usize> = (0..tags.len()).collect();
    for i in 1..ord.len() {
        let mut j = i;
        while j > 0 && tags[ord[j - 1]] > tags[ord[j]] {
            ord.swap(j - 1, j);
            j -= 1;
        }
    }
    ord
}
fn reference_layout(tags: &[u32], vals: &[Vec<u8>]) -> Vec<u8> {
    let n = tags.len();
    let ord = stable_order(tags);
    let mut out = Vec::new();
    out.extend_from_slice(&(n as u32).to_le_bytes());
    let mut acc = 0u32;
    for r in 0..n {
        acc += vals[ord[r]].len() as u32;
        if r + 1 < n {
            out.extend_from_slice(&acc.to_le_bytes());
        }
    }
    for r in 0..n {
        out.extend_from_slice(&tags[ord[r]].to_le_bytes());
    }
    for r in 0..n {
        out.extend_from_slice(&vals[ord[r]]);
    }
    out
}

fn fail(test: &str, what: &str, tags: &[u32], vals: &[Vec<u8>]) -> ! {
    let lens: Vec<usize> = vals.iter().map(|v| v.len()).collect();
    println!("VERIF-CEX {} {} n={} tags={:?} value_lens={:?} (value i = its insertion rank as 2 LE bytes, repeated)", test, what,
             tags.len(), tags, lens);
    panic!("{}: {}", test, what);
}

fn make_tags(n: usize, pattern: usize, seed: &mut u64) -> Vec<u32> {
    (0..n)
        .map(|i| match pattern {
            0 => 7,                             // all ties
            1 => [2u32, 1, 0][i % 3],           // three classes, cycling downwards
            2 => (n - i) as u32,                // strictly descending
            3 => i as u32,                      // already sorted
            4 => (lcg(seed) % 3) as u32,        // three classes, random
            5 => lcg(seed) as u32,              // arbitrary
            _ => (i as u32 / 2) ^ 1,            // sorted pairs of ties, blocks swapped
        })
        .collect()
}
fn make_vals(n: usize, pattern: usize, seed: &mut u64) -> Vec<Vec<u8>> {
    (0..n)
        .map(|i| {
            let len = match pattern {
                0 => 2,
                1 => i % 4,             // includes empty values
                _ => (lcg(seed) % 6) as usize,
            };
            (0..len).map(|b| if b % 2 == 0 { i as u8 } else { (i >> 8) as u8 }).collect()
        })
        .collect()
}

fn check_list(test: &str, tags: &[u32], vals: &[Vec<u8>]) {
    let n = tags.len();
    let want = reference_layout(tags, vals);
    let ord = stable_order(tags);
    // MessageWrapper::new on borrowed slices
    let elements: Vec<(Tag, &[u8])> = (0..n).map(|i| (Tag::new_from_u32(tags[i]), &vals[i][..])).collect();
    let w = match MessageWrapper::new(elements) {
        Ok(w) => w,
        Err(_) => fail(test, "MessageWrapper::new rejected a small list", tags, vals),
    };
    let mut sink = Rec { buf: Vec::new(), borrowed: 0 };
    w.to_rough_tlv(&mut sink);
    if sink.buf.len() != w.rough_tlv_len() {
        fail(test, "emitted length != rough_tlv_len (new)", tags, vals);
    }
    if sink.buf != want {
        fail(test, "emitted bytes differ from the Roughtime layout with ties in insertion order (new)", tags, vals);
    }
    // the same wrapper into a REAL OwningIovec (one of the ZeroCopySink targets the property names)
    {
        let mut iovec = owning_iovec::OwningIovec::new();
        w.to_rough_tlv(&mut iovec);
        match iovec.flatten() {
            Ok(bytes) if bytes == want => {}
            _ => fail(test, "bytes written into an OwningIovec differ from the Roughtime layout", tags, vals),
        }
    }
    // new_from_slice on Cow values (odd ranks owned)
    let mut cows: Vec<(Tag, Cow<[u8]>)> = (0..n)
        .map(|i| (Tag::new_from_u32(tags[i]), if i % 2 == 1 { Cow::Owned(vals[i].clone()) } else { Cow::Borrowed(&vals[i][..]) }))
        .collect();
    let w2 = match MessageWrapper::new_from_slice(&mut cows[..]) {
        Ok(w) => w,
        Err(_) => fail(test, "MessageWrapper::new_from_slice rejected a small list", tags, vals),
    };
    let mut sink2 = Rec { buf: Vec::new(), borrowed: 0 };
    w2.to_rough_tlv(&mut sink2);
    if sink2.buf != want || sink2.buf.len() != w2.rough_tlv_len() {
        fail(test, "emitted bytes differ from the Roughtime layout with ties in insertion order (new_from_slice)", tags, vals);
    }
    // new_from_sorted: rejects exactly the lists whose tags decrease somewhere
    let elements: Vec<(Tag, &[u8])> = (0..n).map(|i| (Tag::new_from_u32(tags[i]), &vals[i][..])).collect();
    let decreases = (1..n).any(|i| tags[i - 1] > tags[i]);
    match MessageWrapper::new_from_sorted(&elements[..]) {
        Ok(w3) => {
            if decreases {
                fail(test, "new_from_sorted accepted tags that decrease somewhere", tags, vals);
            }
            let mut sink3 = Rec { buf: Vec::new(), borrowed: 0 };
            w3.to_rough_tlv(&mut sink3);
            if sink3.buf != want {
                fail(test, "emitted bytes differ from the Roughtime layout (new_from_sorted)", tags, vals);
            }
        }
        Err(_) => {
            if !decreases {
                fail(test, "new_from_sorted rejected non-decreasing tags", tags, vals);
            }
        }
    }
    // MessageView accepts the bytes and returns the same pairs in the same order
    let view = match MessageView::new(Cow::Borrowed(&sink.buf[..])) {
        Ok(v) => v,
        Err(_) => fail(test, "MessageView::new rejected the emitted bytes", tags, vals),
    };
    if view.len() != n {
        fail(test, "MessageView::len differs from the pair count", tags, vals);
    }
    let mut r = 0;
    for (tag, value) in view.iter() {
        if r >= n || tag.value() != tags[ord[r]] || value != &vals[ord[r]][..] {
            fail(test, "iteration returns different pairs / a different order", tags, vals);
        }
        match view.get(r) {
            Some((t, v)) if t == tag && v == value => {}
            _ => fail(test, "indexing disagrees with iteration", tags, vals),
        }
        r += 1;
    }
    if r != n || view.get(n).is_some() {
        fail(test, "iteration / indexing length differs from the pair count", tags, vals);
    }
    for i in 0..n {
        match view.find(tags[i]) {
            Some(v) if (0..n).any(|j| tags[j] == tags[i] && v == &vals[j][..]) => {}
            _ => fail(test, "tag lookup did not return a value stored under that tag", tags, vals),
        }
    }
}

#[test]
fn verif_native_layout_many_pairs() {
    let mut seed = 0x9E37_79B9_7F4A_7C15u64;
    for n in 0..=NP {
        for tp in 0..7 {
            for vp in 0..3 {
                let tags = make_tags(n, tp, &mut seed);
                let vals = make_vals(n, vp, &mut seed);
                check_list("verif_native_layout_many_pairs", &tags, &vals);
            }
        }
    }
}

#[test]
fn verif_native_layout_random_lists() {
    let mut seed = 0xD1B5_4A32_D192_ED03u64;
    for _ in 0..NR {
        let n = (lcg(&mut seed) % (NP as u64 + 1)) as usize;
        let classes = 1 + lcg(&mut seed) % 5;
        let tags: Vec<u32> = (0..n).map(|_| (lcg(&mut seed) % classes) as u32 * 0x0101_0101).collect();
        let vals = make_vals(n, 2, &mut seed);
        check_list("verif_native_layout_random_lists", &tags, &vals);
    }
}

/// Values that are themselves messages (one and two levels of nesting): the outer layout treats the inner message's
/// bytes as an opaque value of length rough_tlv_len, and the views decode level by level to the same pairs.
/// (The Kani harness for this case runs out of memory even with one-byte values.)
#[test]
fn verif_native_nested_messages() {
    let t = "verif_native_nested_messages";
    let mut seed = 0x5851_F42D_4C95_7F2Du64;
    for inner_n in 0..=6usize {
        for outer_n in 1..=5usize {
            for tp in [0usize, 1, 4, 5] {
                // inner lists, one per outer pair
                let inners: Vec<(Vec<u32>, Vec<Vec<u8>>)> = (0..outer_n)
                    .map(|j| (make_tags((inner_n + j) % 7, tp, &mut seed), make_vals((inner_n + j) % 7, j % 3, &mut seed)))
                    .collect();
                let inner_bytes: Vec<Vec<u8>> = inners.iter().map(|(tg, vl)| reference_layout(tg, vl)).collect();
                let outer_tags = make_tags(outer_n, (tp + 1) % 7, &mut seed);
                let want = reference_layout(&outer_tags, &inner_bytes);
                // build it for real: the outer values are MessageWrappers
                let inner_elems: Vec<Vec<(Tag, &[u8])>> = inners
                    .iter()
                    .map(|(tg, vl)| (0..tg.len()).map(|i| (Tag::new_from_u32(tg[i]), &vl[i][..])).collect())
                    .collect();
                let mut outer: Vec<(Tag, MessageWrapper<&[u8]>)> = Vec::new();
                for (j, e) in inner_elems.into_iter().enumerate() {
                    match MessageWrapper::new(e) {
                        Ok(w) => outer.push((Tag::new_from_u32(outer_tags[j]), w)),
                        Err(_) => fail(t, "inner MessageWrapper::new rejected a small list", &outer_tags, &inner_bytes),
                    }
                }
                let w = match MessageWrapper::new(outer) {
                    Ok(w) => w,
                    Err(_) => fail(t, "outer MessageWrapper::new rejected a small list of messages", &outer_tags, &inner_bytes),
                };
                let mut sink = Rec { buf: Vec::new(), borrowed: 0 };
                w.to_rough_tlv(&mut sink);
                if sink.buf.len() != w.rough_tlv_len() || sink.buf != want {
                    fail(t, "nested encoding differs from the layout of (tag, inner message bytes) pairs", &outer_tags, &inner_bytes);
                }
                // decode level by level
                let view = match MessageView::new(Cow::Borrowed(&sink.buf[..])) {
                    Ok(v) => v,
                    Err(_) => fail(t, "MessageView::new rejected the nested encoding", &outer_tags, &inner_bytes),
                };
                let ord = stable_order(&outer_tags);
                for (r, (tag, value)) in view.iter().enumerate() {
                    let j = ord[r];
                    if tag.value() != outer_tags[j] || value != &inner_bytes[j][..] {
                        fail(t, "outer view returns different pairs", &outer_tags, &inner_bytes);
                    }
                    let (itags, ivals) = &inners[j];
                    let iv = match MessageView::new(Cow::Borrowed(value)) {
                        Ok(v) => v,
                        Err(_) => fail(t, "the inner bytes are not accepted as a message", itags, ivals),
                    };
                    let iord = stable_order(itags);
                    if iv.len() != itags.len() {
                        fail(t, "inner view has a different pair count", itags, ivals);
                    }
                    for (k, (it, ivl)) in iv.iter().enumerate() {
                        if it.value() != itags[iord[k]] || ivl != &ivals[iord[k]][..] {
                            fail(t, "inner view returns different pairs", itags, ivals);
                        }
                    }
                }
            }
        }
    }
}
