// Native bounded cross-check for ByteArena::read_n (C17), appended to owning_iovec/src/byte_arena/mod.rs (scratch
// copy) as a child module.  The Verus unit `arena_read` proves the retry loop `read_n_impl` and ASSUMES the unsafe
// wrapper `read_n` around it (allocate `count` bytes, return the first `got`, release the rest); Kani runs out of
// memory on the arena.  This runs the whole of `read_n` -- wrapper included -- against the same reader-script model,
// on real arenas, for counts on both sides of the arena's size classes.
// BOUNDED: every script of <= 4 steps over {deliver 1, 3, 5, 8, 13 bytes, Interrupted, EOF, hard error} x counts
// {0, 1, 2, 7, 8, 9, 64, 4095, 4096, 4097, 8192, 70000} x attempt limits 1..=5, on a fresh arena and on a used one.
use super::*;
use std::io::{ErrorKind, Read};

#[derive(Clone, Copy, Debug, PartialEq)]
enum Step {
    Deliver(usize),
    Interrupted,
    Eof,
    Hard(u8),
}

fn hard_kind(h: u8) -> ErrorKind {
    // every kind but Interrupted is a hard error for read_n ("stops at the first non-interrupt error")
    match h % 6 {
        0 => ErrorKind::Other,
        1 => ErrorKind::WouldBlock,
        2 => ErrorKind::TimedOut,
        3 => ErrorKind::BrokenPipe,
        4 => ErrorKind::UnexpectedEof,
        _ => ErrorKind::ConnectionReset,
    }
}


struct Script<'a> {
    steps: &'a [Step],
    pos: usize,          // reader calls made
    produced: Vec<u8>,   // bytes delivered so far
    asked: usize,        // total bytes requested
    last_err: Option<ErrorKind>,
    finished: bool,      // EOF or a hard error was returned
    called_after_finish: bool,
}
impl<'a> Read for Script<'a> {
    fn read(&mut self, buf: &mut [u8]) -> std::io::Result<usize> {
        if self.finished {
            self.called_after_finish = true;
        }
        let step = if self.pos < self.steps.len() { self.steps[self.pos] } else { Step::Eof };
        self.pos += 1;
        self.asked = self.asked.max(self.produced.len() + buf.len());
        match step {
            Step::Deliver(k) => {
                let k = k.min(buf.len());
                for i in 0..k {
                    let b = (self.produced.len() as u8).wrapping_mul(7).wrapping_add(1);
                    buf[i] = b;
                    self.produced.push(b);
                }
                Ok(k)
            }
            Step::Eof => {
                self.finished = true;
                Ok(0)
            }
            Step::Interrupted => {
                self.last_err = Some(ErrorKind::Interrupted);
                Err(ErrorKind::Interrupted.into())
            }
            Step::Hard(h) => {
                self.last_err = Some(hard_kind(h));
                self.finished = true;
                Err(hard_kind(h).into())
            }
        }
    }
}

fn fail(what: &str, steps: &[Step], count: usize, attempts: usize, used: bool) -> ! {
    println!("VERIF-CEX verif_native_read_n_scripts {} script={:?} count={} max_attempts={} arena={}", what, steps, count, attempts,
             if used { "used" } else { "fresh" });
    panic!("verif_native_read_n_scripts: {}", what);
}

#[test]
fn verif_native_read_n_scripts() {
    let alphabet = [Step::Deliver(1), Step::Deliver(3), Step::Deliver(5), Step::Deliver(8), Step::Deliver(13), Step::Interrupted, Step::Eof, Step::Hard(0), Step::Hard(1), Step::Hard(2), Step::Hard(3), Step::Hard(4)];
    let counts = [0usize, 1, 2, 7, 8, 9, 64, 4095, 4096, 4097, 8192, 70000];
    let mut scripts: Vec<Vec<Step>> = vec![vec![]];
    let mut frontier: Vec<Vec<Step>> = vec![vec![]];
    for _ in 0..4 {
        let mut next = Vec::new();
        for s in &frontier {
            for a in alphabet {
                let mut t = s.clone();
                t.push(a);
                next.push(t);
            }
        }
        scripts.extend(next.iter().cloned());
        frontier = next;
    }
    let (mut oks, mut errs) = (0usize, 0usize);
    for used in [false, true] {
        let mut arena = ByteArena::default();
        if used {
            // leave the current chunk partly consumed
            let _ = arena.read_n(&[1u8, 2, 3][..], 3, NonZeroUsize::new(4).unwrap());
        }
        for steps in &scripts {
            for &count in &counts {
                // keep the run short: long scripts only with a few counts
                if steps.len() == 4 && !(count == 9 || count == 4096) {
                    continue;
                }
                for attempts in 1..=5usize {
                    let mut script = Script { steps, pos: 0, produced: Vec::new(), asked: 0, last_err: None, finished: false, called_after_finish: false };
                    let r = arena.read_n(&mut script, count, NonZeroUsize::new(attempts).unwrap());
                    if count == 0 {
                        // an empty slice without reading
                        if script.pos != 0 || !matches!(&r, Ok(s) if s.slice().is_empty()) {
                            fail("count == 0 must return an empty slice without calling the reader", steps, count, attempts, used);
                        }
                        continue;
                    }
                    if script.pos > attempts {
                        fail("more reader calls than max_attempts", steps, count, attempts, used);
                    }
                    if script.asked > count {
                        fail("asked the reader for more than count bytes in total", steps, count, attempts, used);
                    }
                    if script.called_after_finish {
                        fail("called the reader again after end of file / a hard error", steps, count, attempts, used);
                    }
                    match r {
                        Ok(s) => {
                            oks += 1;
                            if s.slice() != &script.produced[..] {
                                fail("the returned slice is not exactly the bytes delivered, in order", steps, count, attempts, used);
                            }
                            if script.produced.is_empty() && script.last_err.is_some() && !matches!(steps.get(script.pos - 1), Some(Step::Eof) | None) {
                                fail("Ok although nothing was delivered and the last call failed", steps, count, attempts, used);
                            }
                        }
                        Err(e) => {
                            errs += 1;
                            if !script.produced.is_empty() {
                                fail("Err although bytes were delivered", steps, count, attempts, used);
                            }
                            if Some(e.kind()) != script.last_err {
                                fail("the error returned is not the LAST error", steps, count, attempts, used);
                            }
                        }
                    }
                }
            }
        }
    }
    println!("VERIF-STATS verif_native_read_n_scripts ok={} err={}", oks, errs);
    assert!(oks > 10_000 && errs > 1_000, "vacuous: ok={} err={}", oks, errs);
}
