#!/bin/sh
# Nothing is fetched or pre-built: every check rebuilds from /repo's working tree.  Just confirm the tools answer.
set -e
verus --version >/dev/null
cargo kani --version >/dev/null
cbmc --version >/dev/null
python3 -c 'import json, difflib, concurrent.futures'
mkdir -p /verif/evidence /verif/replays /verif/logs
echo setup ok
