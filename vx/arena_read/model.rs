// C17 (arena half), unbounded: ByteArena::read_n_impl against a ghost model of the reader.
#[verifier::external_type_specification]
#[verifier::external_body]
pub struct ExIoError(std::io::Error);

#[verifier::external_body]
struct ByteArena { _p: u8 }

// What a reader will do on its next calls: deliver some bytes (a short read when fewer than asked for), fail with
// Interrupted, report end of file, or fail with any other error.  ANY reader behaviour is a script.
pub enum Step { Deliver(Seq<u8>), Interrupted, Eof, Hard }
pub uninterp spec fn script<R: ?Sized>(r: &R) -> Seq<Step>;
pub uninterp spec fn err_is_interrupted(e: std::io::Error) -> bool;

// ASSUMED contract of std::io::Read::read for every reader, in terms of its script: one call consumes one step; a
// delivery is non-empty, fits the buffer offered, lands at its start and leaves the rest untouched.
pub open spec fn read_post<R: ?Sized>(pre: &R, post: &R, buf0: Seq<u8>, buf1: Seq<u8>, r: std::io::Result<usize>) -> bool {
    &&& buf1.len() == buf0.len()
    &&& script(pre).len() > 0 ==> script(post) == script(pre).skip(1)
    &&& script(pre).len() > 0 ==> match script(pre)[0] {
        Step::Deliver(d) => r is Ok && r->Ok_0 == d.len() && 0 < d.len() <= buf0.len()
            && buf1.take(d.len() as int) == d && buf1.skip(d.len() as int) == buf0.skip(d.len() as int),
        Step::Eof => r is Ok && r->Ok_0 == 0 && buf1 == buf0,
        Step::Interrupted => r is Err && err_is_interrupted(r->Err_0) && buf1 == buf0,
        Step::Hard => r is Err && !err_is_interrupted(r->Err_0) && buf1 == buf0,
    }
}
#[verifier::external_trait_specification]
pub trait ExRead {
    type ExternalTraitSpecificationFor: std::io::Read;
    fn read(&mut self, buf: &mut [u8]) -> (r: std::io::Result<usize>)
        ensures read_post(old(self), final(self), old(buf)@, final(buf)@, r);
}

// ASSUMED std contracts (N9 aliases / assume_specification)
#[verifier::external_body]
fn slice_fill_u8(s: &mut [u8], v: u8)
    ensures final(s)@.len() == old(s)@.len(), forall|i: int| 0 <= i < final(s)@.len() ==> #[trigger] final(s)@[i] == v
{ s.fill(v) }
#[verifier::external_body]
fn io_error_is_interrupted(e: &std::io::Error) -> (r: bool)
    ensures r == err_is_interrupted(*e)
{ e.kind() == std::io::ErrorKind::Interrupted }
pub assume_specification<T>[std::option::Option::<T>::replace](o: &mut Option<T>, v: T) -> (r: Option<T>)
    ensures *final(o) == Some(v), r == *old(o);

// ---- the property, as a function of the script --------------------------------------------------------------
// Outcome of read_n with buffer capacity `cap` and `attempts` calls left, having already collected `got` and last
// seen error `err` (Some(true) = Interrupted, Some(false) = hard error).
spec fn sim(sc: Seq<Step>, cap: int, attempts: int, got: Seq<u8>, err: Option<bool>) -> (Seq<u8>, Option<bool>, int)
    decreases attempts
{
    if attempts <= 0 || sc.len() == 0 || got.len() >= cap { (got, err, 0) } else {
        match sc[0] {
            Step::Deliver(d) => {
                let (g, e, n) = sim(sc.skip(1), cap, attempts - 1, got + d, err);
                (g, e, n + 1)
            }
            Step::Eof => (got, None, 1),
            Step::Interrupted => {
                let (g, e, n) = sim(sc.skip(1), cap, attempts - 1, got, Some(true));
                (g, e, n + 1)
            }
            Step::Hard => (got, Some(false), 1),
        }
    }
}
// what C17 says about the result, given the outcome (bytes delivered in order, last error, calls made)
spec fn read_n_post(outcome: (Seq<u8>, Option<bool>, int), attempts: int, cap: int, buf: Seq<u8>, ret: std::io::Result<usize>) -> bool {
    let (g, e, calls) = outcome;
    &&& calls <= attempts                                   // at most max_attempts calls
    &&& g.len() <= cap                                      // never more than count bytes in total
    &&& (g.len() > 0 || e is None) ==> ret is Ok && ret->Ok_0 == g.len() && buf.take(g.len() as int) == g   // exactly the bytes delivered, in order
    &&& (g.len() == 0 && e is Some) ==> ret is Err && err_is_interrupted(ret->Err_0) == e->Some_0             // the LAST error
}
proof fn lemma_sim_calls(sc: Seq<Step>, cap: int, attempts: int, got: Seq<u8>, err: Option<bool>)
    requires attempts >= 0
    ensures sim(sc, cap, attempts, got, err).2 <= attempts, sim(sc, cap, attempts, got, err).2 >= 0
    decreases attempts
{
    if attempts <= 0 || sc.len() == 0 || got.len() >= cap { } else {
        match sc[0] {
            Step::Deliver(d) => { lemma_sim_calls(sc.skip(1), cap, attempts - 1, got + d, err); }
            Step::Interrupted => { lemma_sim_calls(sc.skip(1), cap, attempts - 1, got, Some(true)); }
            _ => {}
        }
    }
}
proof fn lemma_after_read(s_before: Seq<u8>, s_after: Seq<u8>, gseq: Seq<u8>, count: int)
    requires 0 <= count, gseq.len() + count <= s_before.len(), s_after.len() == s_before.len(),
        s_before.take(gseq.len() as int) == gseq,
        s_after.take(gseq.len() as int) == s_before.take(gseq.len() as int),
    ensures s_after.take(gseq.len() + count) == gseq + s_after.subrange(gseq.len() as int, gseq.len() + count)
{
    assert(s_after.take(gseq.len() + count) =~= s_after.take(gseq.len() as int) + s_after.subrange(gseq.len() as int, gseq.len() + count));
}
