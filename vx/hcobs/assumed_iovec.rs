// ASSUMED contracts of the owning_iovec dependency (producer-side content of C03/C04; not proved
// here -- see DESIGN.md section 7).  find_stuff_sequence is no longer assumed: the real function is in the unit (rule N16).
#[verifier::external_body]
struct OwningIovec<'a> { _p: std::marker::PhantomData<&'a u8> }
#[verifier::external_body]
struct Backref { _p: u8 }

impl Backref {
    uninterp spec fn start(&self) -> int;
    uninterp spec fn blen(&self) -> int;
    #[verifier::external_body]
    fn len(&self) -> (r: usize) ensures r == self.blen() { unimplemented!() }
}

impl<'this> OwningIovec<'this> {
    uninterp spec fn bytes(&self) -> Seq<u8>;
    uninterp spec fn pending(&self) -> Set<int>;

    #[verifier::external_body]
    fn push(&mut self, slice: &'this [u8])
        ensures final(self).bytes() == old(self).bytes() + slice@, final(self).pending() == old(self).pending()
    { unimplemented!() }
    #[verifier::external_body]
    fn push_copy(&mut self, src: &[u8])
        ensures final(self).bytes() == old(self).bytes() + src@, final(self).pending() == old(self).pending()
    { unimplemented!() }
    #[verifier::external_body]
    fn register_patch(&mut self, pattern: &[u8]) -> (r: Backref)
        requires pattern.len() > 0
        ensures final(self).bytes() == old(self).bytes() + pattern@,
            r.start() == old(self).bytes().len(), r.blen() == pattern.len(),
            !old(self).pending().contains(r.start()),
            final(self).pending() == old(self).pending().insert(r.start())
    { unimplemented!() }
    #[verifier::external_body]
    fn backfill_or_panic(&mut self, backref: Backref, src: &[u8])
        requires old(self).pending().contains(backref.start()), src.len() == backref.blen()
        ensures final(self).bytes() == splice(old(self).bytes(), backref.start(), src@),
            final(self).pending() == old(self).pending().remove(backref.start())
    { unimplemented!() }
}
spec fn splice(b: Seq<u8>, at: int, src: Seq<u8>) -> Seq<u8> {
    b.take(at) + src + b.skip(at + src.len())
}

// N3 helpers: strict (non-short-circuit) boolean operators as verified functions.
fn strict_or(a: bool, b: bool) -> (r: bool) ensures r == (a || b) { a || b }
fn strict_and(a: bool, b: bool) -> (r: bool) ensures r == (a && b) { a && b }
// N6 helper: the unsafe promise of NonZeroUsize::new_unchecked becomes an obligation.
const fn nz(x: usize) -> (r: NonZeroUsize) requires x != 0 ensures r@ == x { NonZeroUsize::new(x).unwrap() }

// ---- assumed: constructors, anchors (owning_iovec) ----
impl<'this> OwningIovec<'this> {
    #[verifier::external_body]
    fn new() -> (r: Self)
        ensures r.bytes() == Seq::<u8>::empty(), r.pending() == Set::<int>::empty()
    { unimplemented!() }
    #[verifier::external_body]
    fn push_anchor(&mut self, anchor: Anchor)
        ensures final(self).bytes() == old(self).bytes(), final(self).pending() == old(self).pending()
    { unimplemented!() }
}
#[verifier::external_body]
struct Anchor { _p: u8 }
#[verifier::external_body]
struct ArenaHandle { _p: u8 }
#[verifier::external_body]
struct AnchoredSlice { _p: u8 }
impl AnchoredSlice {
    uninterp spec fn contents(&self) -> Seq<u8>;
    // unsafe in the real crate: the slice is only valid while the anchor lives.  Assumed: it yields
    // exactly the anchored bytes.  (Memory validity is C05, not claimed.)
    #[verifier::external_body]
    fn components<'a>(self) -> (r: (ArenaHandle, &'a [u8], Anchor))
        ensures r.1@ == self.contents()
    { unimplemented!() }
    #[verifier::external_body]
    fn slice(&self) -> (r: &[u8])
        ensures r@ == self.contents()
    { unimplemented!() }
}
impl Default for Backref {
    #[verifier::external_body]
    fn default() -> Self { unimplemented!() }
}

// ---- assumed: arena reads (C17's owning_iovec half is checked by Kani on read_n_impl, bounded) ----
#[verifier::external_type_specification]
#[verifier::external_body]
pub struct ExIoError(std::io::Error);
#[verifier::external_trait_specification]
pub trait ExRead {
    type ExternalTraitSpecificationFor: std::io::Read;
}
#[verifier::external_body]
struct ByteArena { _p: u8 }
impl ByteArena {
    // ASSUMED: returns at most `count` bytes (exactly what the reader delivered: C17, Kani harness c17_*)
    #[verifier::external_body]
    fn read_n<R: std::io::Read>(&mut self, src: R, count: usize, max_attempts: NonZeroUsize) -> (r: std::io::Result<AnchoredSlice>)
        ensures r is Ok ==> r->Ok_0.contents().len() <= count
    { unimplemented!() }
}
impl<'this> OwningIovec<'this> {
    // ASSUMED: handing out the arena (and allocating / reading into it) does not change the logical stream
    #[verifier::external_body]
    fn arena(&mut self) -> (r: &mut ByteArena)
        ensures final(self).bytes() == old(self).bytes(), final(self).pending() == old(self).pending()
    { unimplemented!() }
}
// N9 alias for std::io::Error::other(e: DecodingError) (generic over Into<Box<dyn Error>>)
#[verifier::external_body]
fn io_error_other_dec(e: DecodingError) -> std::io::Error { unimplemented!() }

// ---- assumed: the consumer view.  Handing out (and using) a ConsumingIovec does not change the logical
// stream `bytes()` nor the pending set (consumption is tracked separately: C03, not claimed).
#[verifier::external_body]
struct ConsumingIovec<'a> { _p: std::marker::PhantomData<&'a u8> }
impl<'this> OwningIovec<'this> {
    #[verifier::external_body]
    fn consumer(&mut self) -> (r: ConsumingIovec<'_>)
        ensures final(self).bytes() == old(self).bytes(), final(self).pending() == old(self).pending()
    { unimplemented!() }
}
