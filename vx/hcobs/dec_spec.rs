// The decoder as a byte-at-a-time automaton, transcribed from the format text (C07), its
// concatenation lemma, and the round-trip theorem enc -> drun (C01 at the spec level).
// ---------- spec: decoder automaton ----------
enum DState {
    Initial,
    Before { insert: bool },
    Mid { b0: u8 },
    In { remaining: int, term: bool },
    Fail,
}

spec fn after_header(n: int, lim: int) -> DState {
    if n > lim { DState::Fail }
    else if n > 0 { DState::In { remaining: n, term: n < lim } }
    else { DState::Before { insert: n < lim } }
}

// one byte: new state, emitted bytes
spec fn dstep(s: DState, b: u8, m0: int, m1: int) -> (DState, Seq<u8>) {
    match s {
        DState::Initial => (after_header(b as int, m0), seq![]),
        DState::Before { insert } => {
            let out = if insert { seq![0xfeu8, 0xfdu8] } else { seq![] };
            if b >= 253 { (DState::Fail, out) } else { (DState::Mid { b0: b }, out) }
        }
        DState::Mid { b0 } => {
            if b >= 253 { (DState::Fail, seq![]) }
            else { (after_header(b0 as int + 253 * (b as int), m1), seq![]) }
        }
        DState::In { remaining, term } => {
            if remaining > 1 { (DState::In { remaining: remaining - 1, term }, seq![b]) }
            else { (DState::Before { insert: term }, seq![b]) }
        }
        DState::Fail => (DState::Fail, seq![]),
    }
}

spec fn drun(s: DState, y: Seq<u8>, m0: int, m1: int) -> (DState, Seq<u8>)
    decreases y.len()
{
    if y.len() == 0 { (s, seq![]) } else {
        let (s1, o1) = dstep(s, y[0], m0, m1);
        let (s2, o2) = drun(s1, y.skip(1), m0, m1);
        (s2, o1 + o2)
    }
}

proof fn lemma_drun_concat(s: DState, a: Seq<u8>, b: Seq<u8>, m0: int, m1: int)
    ensures ({
        let (s1, o1) = drun(s, a, m0, m1);
        let (s2, o2) = drun(s1, b, m0, m1);
        drun(s, a + b, m0, m1) == (s2, o1 + o2)
    })
    decreases a.len()
{
    if a.len() == 0 {
        assert(a + b =~= b);
        let (s2, o2) = drun(s, b, m0, m1);
        assert(Seq::<u8>::empty() + o2 =~= o2);
    } else {
        let (sa, oa) = dstep(s, a[0], m0, m1);
        lemma_drun_concat(sa, a.skip(1), b, m0, m1);
        assert((a + b).skip(1) =~= a.skip(1) + b);
        assert((a + b)[0] == a[0]);
        let (s1, o1) = drun(sa, a.skip(1), m0, m1);
        let (s2, o2) = drun(s1, b, m0, m1);
        assert(oa + (o1 + o2) =~= (oa + o1) + o2);
    }
}

// a chunk body of n bytes
proof fn lemma_drun_body(c: Seq<u8>, term: bool, m0: int, m1: int)
    requires c.len() > 0
    ensures drun(DState::In { remaining: c.len() as int, term }, c, m0, m1) == (DState::Before { insert: term }, c)
    decreases c.len()
{
    let s = DState::In { remaining: c.len() as int, term };
    reveal_with_fuel(drun, 2);
    if c.len() == 1 {
        assert(c.skip(1).len() == 0);
        assert(drun(DState::Before { insert: term }, c.skip(1), m0, m1) == (DState::Before { insert: term }, Seq::<u8>::empty()));
        assert(seq![c[0]] + Seq::<u8>::empty() =~= c);
    } else {
        lemma_drun_body(c.skip(1), term, m0, m1);
        assert(c.skip(1).len() == c.len() - 1);
        assert(dstep(s, c[0], m0, m1) == (DState::In { remaining: c.len() - 1, term }, seq![c[0]]));
        assert(seq![c[0]] + c.skip(1) =~= c);
    }
}

spec fn stuff() -> Seq<u8> { seq![0xfeu8, 0xfdu8] }

// decoding a header of a chunk of size n (n <= lim) from the appropriate state
proof fn lemma_drun_hdr_first(n: int, m0: int, m1: int)
    requires 0 <= n <= m0 <= 252
    ensures drun(DState::Initial, hdr(n, true), m0, m1) == (after_header(n, m0), Seq::<u8>::empty())
{
    let h = hdr(n, true);
    reveal_with_fuel(drun, 2);
    assert(h.len() == 1);
    assert(h[0] as int == n);
    assert(h.skip(1).len() == 0);
    assert((n % 253) as u8 as int == n);
    assert(Seq::<u8>::empty() + Seq::<u8>::empty() =~= Seq::<u8>::empty());
}

proof fn lemma_drun_hdr_next(n: int, insert: bool, m0: int, m1: int)
    requires 0 <= n <= m1 <= 64008
    ensures drun(DState::Before { insert }, hdr(n, false), m0, m1)
        == (after_header(n, m1), if insert { stuff() } else { Seq::<u8>::empty() })
{
    let h = hdr(n, false);
    reveal_with_fuel(drun, 3);
    assert(h.len() == 2);
    let d0 = n % 253; let d1 = n / 253;
    assert(0 <= d0 < 253);
    assert(0 <= d1 < 253) by (nonlinear_arith) requires 0 <= n <= 64008, d1 == n / 253;
    assert(d0 + 253 * d1 == n) by (nonlinear_arith) requires d0 == n % 253, d1 == n / 253;
    assert(h.skip(1).len() == 1);
    assert(h.skip(1)[0] == d1 as u8);
    assert(h.skip(1).skip(1).len() == 0);
    let out = if insert { stuff() } else { Seq::<u8>::empty() };
    assert(out + (Seq::<u8>::empty() + Seq::<u8>::empty()) =~= out);
}


spec fn start_state(first: bool, insert: bool) -> DState {
    if first { DState::Initial } else { DState::Before { insert } }
}
spec fn pre_out(first: bool, insert: bool) -> Seq<u8> {
    if !first && insert { stuff() } else { Seq::<u8>::empty() }
}

// header followed by a chunk body of exactly n bytes, n <= lim
proof fn lemma_drun_chunk(c: Seq<u8>, first: bool, insert: bool, m0: int, m1: int)
    requires 0 < m0 <= 252, 0 < m1 <= 64008, c.len() <= (if first { m0 } else { m1 })
    ensures drun(start_state(first, insert), hdr(c.len() as int, first) + c, m0, m1)
        == (DState::Before { insert: c.len() < (if first { m0 } else { m1 }) }, pre_out(first, insert) + c)
{
    let n = c.len() as int;
    let lim = if first { m0 } else { m1 };
    let h = hdr(n, first);
    lemma_drun_concat(start_state(first, insert), h, c, m0, m1);
    if first { lemma_drun_hdr_first(n, m0, m1); } else { lemma_drun_hdr_next(n, insert, m0, m1); }
    let pre = pre_out(first, insert);
    if n > 0 {
        lemma_drun_body(c, n < lim, m0, m1);
    } else {
        assert(pre + c =~= pre + Seq::<u8>::empty());
    }
}


proof fn lemma_rt_compose(s0: DState, hc: Seq<u8>, e_rest: Seq<u8>, smid: DState, o1: Seq<u8>, o2: Seq<u8>, m0: int, m1: int)
    requires drun(s0, hc, m0, m1) == (smid, o1), drun(smid, e_rest, m0, m1) == (DState::Before { insert: true }, o2)
    ensures drun(s0, hc + e_rest, m0, m1) == (DState::Before { insert: true }, o1 + o2)
{
    lemma_drun_concat(s0, hc, e_rest, m0, m1);
}

proof fn lemma_join_stuff(pre: Seq<u8>, x: Seq<u8>, i: int)
    requires is_stuff_at(x, i)
    ensures (pre + x.take(i)) + (stuff() + x.skip(i + 2)) == pre + x
{
    assert((pre + x.take(i)) + (stuff() + x.skip(i + 2)) =~= pre + x);
}
proof fn lemma_join_full(pre: Seq<u8>, x: Seq<u8>, n: int)
    requires 0 <= n <= x.len()
    ensures (pre + x.take(n)) + (Seq::<u8>::empty() + x.skip(n)) == pre + x
{
    assert((pre + x.take(n)) + (Seq::<u8>::empty() + x.skip(n)) =~= pre + x);
}
proof fn lemma_window_stuff(x: Seq<u8>, max: int)
    requires max > 0, has_stuff(window(x, max))
    ensures ({ let i = stuff_idx(window(x, max)); first_stuff(x, i) && 0 <= i && i + 2 <= max && i + 2 <= x.len() })
{
    let w = window(x, max);
    lemma_first_stuff_exists(w);
    let i = stuff_idx(w);
    assert(is_stuff_at(x, i));
    assert forall|j: int| j < i implies !is_stuff_at(x, j) by {
        if is_stuff_at(x, j) { assert(is_stuff_at(w, j)); }
    }
}
proof fn lemma_window_nostuff(x: Seq<u8>, max: int)
    requires max > 0, !has_stuff(window(x, max))
    ensures x.len() >= max ==> no_stuff(x.take(max)), x.len() < max ==> no_stuff(x)
{
    let w = window(x, max);
    assert forall|i: int| !is_stuff_at(w, i) by { }
    if x.len() > max { assert(w == x.take(max)); }
    else if x.len() == max { assert(x.take(max) =~= x); }
}

proof fn lemma_round_trip(x: Seq<u8>, first: bool, insert: bool, m0: int, m1: int)
    requires 0 < m0 <= 252, 0 < m1 <= 64008
    ensures drun(start_state(first, insert), enc(x, if first { m0 } else { m1 }, m1, first), m0, m1)
        == (DState::Before { insert: true }, pre_out(first, insert) + x)
    decreases x.len()
{
    hide(enc);
    let max = if first { m0 } else { m1 };
    let s0 = start_state(first, insert);
    let pre = pre_out(first, insert);
    if has_stuff(window(x, max)) {
        lemma_window_stuff(x, max);
        let i = stuff_idx(window(x, max));
        lemma_enc_stuff(x, i, max, m1, first);
        let c = x.take(i);
        let rest = x.skip(i + 2);
        lemma_drun_chunk(c, first, insert, m0, m1);
        lemma_round_trip(rest, false, true, m0, m1);
        lemma_rt_compose(s0, hdr(i, first) + c, enc(rest, m1, m1, false), DState::Before { insert: true }, pre + c, stuff() + rest, m0, m1);
        lemma_join_stuff(pre, x, i);
    } else {
        lemma_window_nostuff(x, max);
        if x.len() >= max {
            lemma_enc_full(x, max, m1, first);
                let c = x.take(max);
            let rest = x.skip(max);
            lemma_drun_chunk(c, first, insert, m0, m1);
            lemma_round_trip(rest, false, false, m0, m1);
            lemma_rt_compose(s0, hdr(max, first) + c, enc(rest, m1, m1, false), DState::Before { insert: false }, pre + c, Seq::<u8>::empty() + rest, m0, m1);
            lemma_join_full(pre, x, max);
        } else {
            lemma_enc_short(x, max, m1, first);
                lemma_drun_chunk(x, first, insert, m0, m1);
        }
    }
}

// C01 at the spec level
proof fn theorem_round_trip(x: Seq<u8>, m0: int, m1: int)
    requires 0 < m0 <= 252, 0 < m1 <= 64008
    ensures drun(DState::Initial, enc(x, m0, m1, true), m0, m1) == (DState::Before { insert: true }, x)
{
    lemma_round_trip(x, true, false, m0, m1);
    assert(Seq::<u8>::empty() + x =~= x);
}
