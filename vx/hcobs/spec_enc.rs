// Canonical hybrid-COBS encoding as a mathematical function (the definition used by C01/C02/C07).
// Parameterised by the two chunk limits; production values enter only through PROD_PARAMS.
spec fn is_stuff_at(s: Seq<u8>, i: int) -> bool {
    0 <= i && i + 1 < s.len() && s[i] == 0xfeu8 && s[i + 1] == 0xfdu8
}
spec fn no_stuff(s: Seq<u8>) -> bool { forall|i: int| !is_stuff_at(s, i) }
spec fn first_stuff(s: Seq<u8>, i: int) -> bool {
    is_stuff_at(s, i) && forall|j: int| j < i ==> !is_stuff_at(s, j)
}
spec fn has_stuff(s: Seq<u8>) -> bool { exists|i: int| is_stuff_at(s, i) }
spec fn stuff_idx(s: Seq<u8>) -> int { choose|i: int| first_stuff(s, i) }

spec fn hdr(n: int, first: bool) -> Seq<u8> {
    if first { seq![(n % 253) as u8] } else { seq![(n % 253) as u8, (n / 253) as u8] }
}
spec fn window(x: Seq<u8>, max: int) -> Seq<u8> { if x.len() <= max { x } else { x.take(max) } }

spec fn enc(x: Seq<u8>, max: int, m1: int, first: bool) -> Seq<u8>
    decreases x.len()
{
    if max <= 0 || m1 <= 0 { seq![] } else {
    let w = window(x, max);
    if has_stuff(w) {
        let i = stuff_idx(w);
        if 0 <= i && i + 2 <= x.len() {
            hdr(i, first) + x.take(i) + enc(x.skip(i + 2), m1, m1, false)
        } else { seq![] }
    } else if x.len() >= max {
        hdr(max, first) + x.take(max) + enc(x.skip(max), m1, m1, false)
    } else {
        hdr(x.len() as int, first) + x
    } }
}

proof fn lemma_first_stuff_exists(s: Seq<u8>)
    requires has_stuff(s)
    ensures first_stuff(s, stuff_idx(s)), 0 <= stuff_idx(s), stuff_idx(s) + 1 < s.len()
{
    let k = choose|i: int| is_stuff_at(s, i);
    lemma_min_stuff(s, k);
}
proof fn lemma_min_stuff(s: Seq<u8>, k: int)
    requires is_stuff_at(s, k)
    ensures exists|i: int| first_stuff(s, i)
    decreases k
{
    if exists|j: int| j < k && is_stuff_at(s, j) {
        let j = choose|j: int| j < k && is_stuff_at(s, j);
        lemma_min_stuff(s, j);
    } else {
        assert(first_stuff(s, k));
    }
}
proof fn lemma_first_stuff_unique(s: Seq<u8>, a: int, b: int)
    requires first_stuff(s, a), first_stuff(s, b)
    ensures a == b
{ }

// unfold lemmas
proof fn lemma_enc_stuff(x: Seq<u8>, i: int, max: int, m1: int, first: bool)
    requires max > 0, m1 > 0, first_stuff(x, i), i + 2 <= max
    ensures enc(x, max, m1, first) == hdr(i, first) + x.take(i) + enc(x.skip(i + 2), m1, m1, false)
{
    let w = window(x, max);
    assert(is_stuff_at(w, i));
    assert forall|j: int| j < i implies !is_stuff_at(w, j) by {
        if is_stuff_at(w, j) { assert(is_stuff_at(x, j)); }
    }
    assert(first_stuff(w, i));
    lemma_first_stuff_exists(w);
    lemma_first_stuff_unique(w, i, stuff_idx(w));
}
proof fn lemma_enc_full(x: Seq<u8>, max: int, m1: int, first: bool)
    requires max > 0, m1 > 0, x.len() >= max, no_stuff(x.take(max))
    ensures enc(x, max, m1, first) == hdr(max, first) + x.take(max) + enc(x.skip(max), m1, m1, false)
{
    let w = window(x, max);
    assert(w =~= x.take(max));
}
proof fn lemma_enc_short(x: Seq<u8>, max: int, m1: int, first: bool)
    requires max > 0, m1 > 0, x.len() < max, no_stuff(x)
    ensures enc(x, max, m1, first) == hdr(x.len() as int, first) + x
{ }
