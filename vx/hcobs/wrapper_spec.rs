// Contract vocabulary for the public wrappers in hcobs/src/lib.rs.
impl<'this> Encoder<'this> {
    // representation invariant at every call boundary
    spec fn inv(&self) -> bool { self.state.wf_i(&self.iovec, 252, 64008) }
    // what finish() would return if the remaining input were z
    spec fn sem(&self, z: Seq<u8>) -> Seq<u8> { self.state.meaning_i(&self.iovec, 64008, z) }
    // placeholders other than the encoder's own chunk header
    spec fn others(&self) -> Set<int> { self.iovec.pending().remove(self.state.bstart()) }
}
spec fn prod_enc(x: Seq<u8>) -> Seq<u8> { enc(x, 252, 64008, true) }

proof fn lemma_new_sem(st: EncoderState, iov: &OwningIovec, b0: Seq<u8>, z: Seq<u8>)
    requires st.wf_i(iov, 252, 64008), st.first(), st.tail(iov) == Seq::<u8>::empty(), st.bstart() == b0.len(),
        iov.bytes().take(b0.len() as int) == b0
    ensures st.meaning_i(iov, 64008, z) == b0 + prod_enc(z)
{
    assert(Seq::<u8>::empty() + z =~= z);
}

// Decoder wrapper: what one decode call promises, against the format automaton with production limits.
spec fn wdecode_post(s0: DecoderState, input: Seq<u8>, b0: Seq<u8>, b1: Seq<u8>, s1: DecoderState, ret: Result<(), DecodingError>) -> bool {
    let (s, out) = drun(dview(s0), input, 252, 64008);
    match ret {
        Ok(_) => !(s is Fail) && dview(s1) == s && b1 == b0 + out,
        Err(_) => s is Fail,
    }
}

// C17 (codec half): encode_read / decode_read process exactly the bytes the read returned.
spec fn encodes_bytes(pre: &Encoder, post: &Encoder, s: Seq<u8>) -> bool {
    forall|z: Seq<u8>| #[trigger] post.sem(z) == pre.sem(s + z)
}
spec fn read_encoded(pre: &Encoder, post: &Encoder, n: int) -> bool {
    exists|s: Seq<u8>| s.len() == n && #[trigger] encodes_bytes(pre, post, s)
}
spec fn decodes_bytes(pre_state: DecoderState, pre_bytes: Seq<u8>, post: &Decoder, s: Seq<u8>) -> bool {
    wdecode_post(pre_state, s, pre_bytes, post.iovec.bytes(), post.state, Ok(()))
}
spec fn read_decoded(pre_state: DecoderState, pre_bytes: Seq<u8>, post: &Decoder, n: int) -> bool {
    exists|s: Seq<u8>| s.len() == n && #[trigger] decodes_bytes(pre_state, pre_bytes, post, s)
}
// the bytes s are rejected by the format automaton when fed in state pre_state
spec fn read_rejected(pre_state: DecoderState, s: Seq<u8>) -> bool {
    drun(dview(pre_state), s, 252, 64008).0 is Fail
}
