// Counterexample SEARCH for failed Verus obligations of the hcobs unit.  Appended to a scratch copy of
// hcobs/src/lib.rs as `#[cfg(test)] mod verif_cex` and run with `cargo test verif_cex`.  It never decides a
// property: it only tries to attach a concrete failing input (on the real code) to an obligation that the
// verifier has already rejected.  Executable twins of the spec functions `enc` and `drun` serve as oracles.
use super::*;
use crate::decoder::DecoderState;
use crate::encoder::EncoderState;

fn hex(b: &[u8]) -> String {
    b.iter().map(|x| format!("{:02x}", x)).collect::<Vec<_>>().join("")
}

/// twin of spec `enc(x, m0, m1, first = true)`
fn ref_enc(x: &[u8], m0: usize, m1: usize) -> Vec<u8> {
    let mut out = Vec::new();
    let mut rest = x;
    let mut first = true;
    loop {
        let max = if first { m0 } else { m1 };
        let w = if rest.len() <= max { rest } else { &rest[..max] };
        let stuff = w.windows(2).position(|p| p == [0xfe, 0xfd]);
        let (n, skip, last) = match stuff {
            Some(i) => (i, i + 2, false),
            None if rest.len() >= max => (max, max, false),
            None => (rest.len(), rest.len(), true),
        };
        out.push((n % 253) as u8);
        if !first {
            out.push((n / 253) as u8);
        }
        out.extend_from_slice(&rest[..n]);
        rest = &rest[skip..];
        first = false;
        if last {
            return out;
        }
    }
}

/// twin of spec `drun` from Initial + acceptance (Before{insert: true})
fn ref_dec(y: &[u8], m0: usize, m1: usize) -> Option<Vec<u8>> {
    #[derive(Clone, Copy)]
    enum S {
        Initial,
        Before(bool),
        Mid(u8),
        In(usize, bool),
    }
    let after = |n: usize, lim: usize| -> Option<S> {
        if n > lim {
            None
        } else if n > 0 {
            Some(S::In(n, n < lim))
        } else {
            Some(S::Before(n < lim))
        }
    };
    let mut s = S::Initial;
    let mut out = Vec::new();
    for &b in y {
        s = match s {
            S::Initial => after(b as usize, m0)?,
            S::Before(ins) => {
                if ins {
                    out.extend_from_slice(&[0xfe, 0xfd]);
                }
                if b >= 253 {
                    return None;
                }
                S::Mid(b)
            }
            S::Mid(b0) => {
                if b >= 253 {
                    return None;
                }
                after(b0 as usize + 253 * b as usize, m1)?
            }
            S::In(r, t) => {
                out.push(b);
                if r > 1 {
                    S::In(r - 1, t)
                } else {
                    S::Before(t)
                }
            }
        };
    }
    match s {
        S::Before(true) => Some(out),
        _ => None,
    }
}

fn stable_bytes(iovec: &OwningIovec<'_>) -> Vec<u8> {
    iovec.stable_prefix().iter().flat_map(|x| -> &[u8] { x }).copied().collect()
}

/// real encoder, internal API, given limits; pieces fed by borrow (false) / copy (true)
fn real_enc(pieces: &[(&[u8], bool)], params: Parameters) -> (Vec<u8>, bool) {
    let mut iovec = OwningIovec::new();
    let mut st = EncoderState::new(&mut iovec, params);
    let mut prefixes: Vec<Vec<u8>> = Vec::new();
    for (p, copy) in pieces {
        st = if *copy { st.encode_copy(&mut iovec, params, p) } else { st.encode_borrow(&mut iovec, params, p) };
        prefixes.push(stable_bytes(&iovec));
    }
    st.terminate(&mut iovec);
    let out = iovec.flatten().expect("no backpatch left");
    let prefix_ok = prefixes.iter().all(|p| out.starts_with(p));
    (out, prefix_ok)
}

fn real_dec(pieces: &[&[u8]], params: Parameters, copy: bool) -> Option<Vec<u8>> {
    let mut iovec = OwningIovec::new();
    let mut st = DecoderState::new();
    for p in pieces {
        st = if copy { st.decode_copy(&mut iovec, params, p).ok()? } else { st.decode_borrow(&mut iovec, params, p).ok()? };
    }
    st.terminate().ok()?;
    Some(iovec.flatten().expect("no backpatch left"))
}

fn report(kind: &str, input: &[u8], split: &str, got: &str, want: &str) -> ! {
    println!("VERIF-CEX kind={} input={} split={} got={} want={}", kind, hex(input), split, got, want);
    panic!("VERIF-CEX {}", kind);
}

fn strings(alphabet: &[u8], maxlen: usize, f: &mut dyn FnMut(&[u8])) {
    let mut cur: Vec<u8> = Vec::new();
    fn rec(alphabet: &[u8], maxlen: usize, cur: &mut Vec<u8>, f: &mut dyn FnMut(&[u8])) {
        f(cur);
        if cur.len() == maxlen {
            return;
        }
        for &a in alphabet {
            cur.push(a);
            rec(alphabet, maxlen, cur, f);
            cur.pop();
        }
    }
    rec(alphabet, maxlen, &mut cur, f);
}

#[test]
fn verif_cex_encoder_small_limits() {
    // limits 3/5 (the crate's own TEST_PARAMS), alphabet {00, FD, FE, 41}, every input of length <= 7,
    // every 2-way split x borrow/copy, and a 3-way split
    let m0 = 3;
    let m1 = 5;
    strings(&[0x00, 0xfd, 0xfe, 0x41], 7, &mut |x: &[u8]| {
        let want = ref_enc(x, m0, m1);
        for cut in 0..=x.len() {
            for mode in 0..4 {
                let pieces = [(&x[..cut], mode & 1 == 1), (&x[cut..], mode & 2 == 2)];
                let (got, prefix_ok) = real_enc(&pieces, TEST_PARAMS);
                if got != want {
                    report("encoder-output", x, &format!("{}|mode{}", cut, mode), &hex(&got), &hex(&want));
                }
                if !prefix_ok {
                    report("encoder-stable-prefix", x, &format!("{}|mode{}", cut, mode), "not-a-prefix", &hex(&want));
                }
                if find_stuff_sequence(&got).is_some() {
                    report("encoder-stuff-in-output", x, &format!("{}", cut), &hex(&got), "no fe fd");
                }
            }
        }
        if x.len() >= 3 {
            let a = x.len() / 3;
            let b = 2 * x.len() / 3;
            let pieces = [(&x[..a], true), (&x[a..b], false), (&x[b..], true)];
            let (got, _) = real_enc(&pieces, TEST_PARAMS);
            if got != want {
                report("encoder-output", x, &format!("{}|{}", a, b), &hex(&got), &hex(&want));
            }
        }
        // round trip through the real decoder
        match real_dec(&[&want], TEST_PARAMS, false) {
            Some(back) if back == x => {}
            other => report("round-trip", x, "-", &format!("{:?}", other.map(|v| hex(&v))), &hex(x)),
        }
    });
}

#[test]
fn verif_cex_decoder_small_limits() {
    // every string over {00,01,02,03,05,06,41,FD,FE} of length <= 5, whole / byte-by-byte / 2-way, borrow and copy
    let m0 = 3;
    let m1 = 5;
    strings(&[0x00, 0x01, 0x02, 0x03, 0x05, 0x06, 0x41, 0xfd, 0xfe], 5, &mut |y: &[u8]| {
        let want = ref_dec(y, m0, m1);
        let whole = real_dec(&[y], TEST_PARAMS, false);
        if whole != want {
            report("decoder-verdict", y, "whole", &format!("{:?}", whole.map(|v| hex(&v))), &format!("{:?}", want.as_ref().map(|v| hex(v))));
        }
        let bytes: Vec<&[u8]> = y.chunks(1).collect();
        let single = real_dec(&bytes, TEST_PARAMS, true);
        if single != want {
            report("decoder-verdict", y, "bytewise", &format!("{:?}", single.map(|v| hex(&v))), &format!("{:?}", want.as_ref().map(|v| hex(v))));
        }
        for cut in 0..=y.len() {
            let two = real_dec(&[&y[..cut], &y[cut..]], TEST_PARAMS, cut % 2 == 0);
            if two != want {
                report("decoder-verdict", y, &format!("{}", cut), &format!("{:?}", two.map(|v| hex(&v))), &format!("{:?}", want.as_ref().map(|v| hex(v))));
            }
        }
    });
}

#[test]
fn verif_cex_production_limits() {
    // public API, lengths around the 252 / 64008 limits, FE/FD placed at the boundaries
    // ... and around 2^16 and its multiples (where a 16-bit length wraps), also as the TAIL of a call
    let lens = [0usize, 1, 250, 251, 252, 253, 254, 505, 64006, 64007, 64008, 64009, 64260, 64261, 64262, 65535, 65536, 65537, 65788,
                128300, 131072, 131073, 196608];
    for &n in &lens {
        for pat in 0..6 {
            let mut x = vec![0x41u8; n];
            for (i, b) in x.iter_mut().enumerate() {
                *b = match pat {
                    0 => 0x41,
                    1 => if i % 2 == 0 { 0xfe } else { 0xfd },
                    2 => 0xfe,
                    3 => if i == 251 || i == 64259 { 0xfe } else if i == 252 || i == 64260 { 0xfd } else { 0x42 },
                    4 => if i == 250 || i == 64258 { 0xfe } else if i == 251 || i == 64259 { 0xfd } else { 0x43 },
                    _ => (i % 251) as u8,
                };
            }
            let want = ref_enc(&x, 252, 64008);
            for cut in [0usize, 1, 251, 252, 253, n / 2, n.saturating_sub(1), n.saturating_sub(65536), n.saturating_sub(131072)] {
                if cut > n {
                    continue;
                }
                let mut e = Encoder::new();
                e.encode_copy(&x[..cut]);
                e.encode(&x[cut..]);
                let got = e.finish().flatten().expect("no backpatch left");
                if got != want {
                    report("encoder-output-prod", &x[..x.len().min(16)], &format!("n={} pat={} cut={}", n, pat, cut),
                           &format!("len {}", got.len()), &format!("len {}", want.len()));
                }
                if got.len() > n + 1 + 2 * ((n + 64007) / 64008) {
                    report("encoder-length-bound", &x[..x.len().min(16)], &format!("n={} pat={}", n, pat), &format!("{}", got.len()), "bound");
                }
            }
            let mut d = Decoder::new();
            let ok = d.decode_copy(&want).is_ok();
            let back = if ok { d.finish().ok().map(|v| v.flatten().expect("flat")) } else { None };
            if back.as_deref() != Some(&x[..]) {
                report("round-trip-prod", &x[..x.len().min(16)], &format!("n={} pat={}", n, pat), "mismatch", "input");
            }
            // the public Decoder fed in two pieces, cut at / around every chunk boundary of the encoded bytes, through
            // every mix of the borrowing and the copying input method (a fresh decoder's first piece ending exactly
            // after a full initial chunk is one of these)
            {
                let len = want.len();
                let mut cuts: Vec<usize> = vec![0, 1, 2, len / 2, len.saturating_sub(2), len.saturating_sub(1), len];
                cuts.extend(250..=258usize);
                cuts.extend(64258..=64268usize);
                if len <= 520 {
                    cuts.extend(0..=len);
                }
                cuts.retain(|c| *c <= len);
                cuts.sort();
                cuts.dedup();
                for &cut in &cuts {
                    for mode in 0..4 {
                        let mut d = Decoder::new();
                        let (a, b) = want.split_at(cut);
                        let r1 = if mode & 1 == 0 { d.decode(a) } else { d.decode_copy(a) };
                        let r2 = if r1.is_ok() { if mode & 2 == 0 { d.decode(b) } else { d.decode_copy(b) } } else { r1 };
                        let back = if r2.is_ok() { d.finish().ok().map(|v| v.flatten().expect("flat")) } else { None };
                        if back.as_deref() != Some(&x[..]) {
                            report("round-trip-prod-two-pieces", &x[..x.len().min(16)], &format!("n={} pat={} cut={} mode={}", n, pat, cut, mode),
                                   &match &back { Some(v) => format!("len {}", v.len()), None => "rejected".to_string() }, &format!("len {}", n));
                        }
                    }
                }
            }
            // out-of-range headers must be rejected
            if n == 0 {
                let mut d = Decoder::new();
                if d.decode_copy(&[253]).is_ok() {
                    report("decoder-verdict-prod", &[253], "-", "accepted", "rejected");
                }
            }
        }
    }
}

fn drain_all(consumer: &mut owning_iovec::ConsumingIovec<'_>, out: &mut Vec<u8>) {
    let n = {
        let prefix = consumer.stable_prefix();
        for s in prefix.iter() {
            let s: &[u8] = s;
            out.extend_from_slice(s);
        }
        prefix.len()
    };
    if n > 0 {
        assert_eq!(consumer.consume(n), n);
    }
}

#[test]
fn verif_cex_public_api_drain_schedules() {
    // public Encoder / Decoder (production limits), every input over {FD, FE, 41} of length <= 6, every 2-way
    // split, three drain schedules between the calls: none, peek (obtain the consumer only), drain everything
    // consumable.  Drained bytes ++ finish() must equal the one-shot encoding; same for the decoder.
    strings(&[0xfd, 0xfe, 0x41], 6, &mut |x: &[u8]| {
        let want = ref_enc(x, 252, 64008);
        for cut in 0..=x.len() {
            for schedule in 0..3 {
              for mode in 0..4 {
                let mut drained: Vec<u8> = Vec::new();
                let mut e = Encoder::new();
                if mode & 1 == 1 { e.encode_copy(&x[..cut]) } else { e.encode(&x[..cut]) }
                match schedule {
                    0 => {}
                    1 => {
                        let _peek = e.consumer().stable_prefix().len();
                    }
                    _ => drain_all(&mut e.consumer(), &mut drained),
                }
                if mode & 2 == 2 { e.encode_copy(&x[cut..]) } else { e.encode(&x[cut..]) }
                if schedule == 2 {
                    drain_all(&mut e.consumer(), &mut drained);
                }
                if !want.starts_with(&drained) {
                    report("encoder-drained-not-a-prefix", x, &format!("{}|sched{}|mode{}", cut, schedule, mode), &hex(&drained), &hex(&want));
                }
                let rest = e.finish().flatten().expect("no backpatch left");
                drained.extend_from_slice(&rest);
                if drained != want {
                    report("encoder-drain-schedule", x, &format!("{}|sched{}|mode{}", cut, schedule, mode), &hex(&drained), &hex(&want));
                }
              }
                // decoder, same schedules over the encoded stream
                let y = &want;
                let ycut = (cut * y.len()) / (x.len() + 1);
                let mut dd: Vec<u8> = Vec::new();
                let mut d = Decoder::new();
                d.decode_copy(&y[..ycut]).expect("valid prefix");
                match schedule {
                    0 => {}
                    1 => {
                        let _peek = d.consumer().stable_prefix().len();
                    }
                    _ => drain_all(&mut d.consumer(), &mut dd),
                }
                d.decode(&y[ycut..]).expect("valid stream");
                let rest = d.finish().expect("complete stream").flatten().expect("flat");
                dd.extend_from_slice(&rest);
                if dd != x {
                    report("decoder-drain-schedule", x, &format!("{}|sched{}", ycut, schedule), &hex(&dd), &hex(x));
                }
            }
        }
    });
}

#[test]
fn verif_cex_single_stuff_at_boundary_offsets() {
    // One FE FD (and, separately, FE FF FD) placed at offsets around powers of two and around the chunk starts,
    // in an otherwise stuff-free 70 000-byte input: the positions where block- or word-wise scanning goes wrong.
    let n = 70_000usize;
    let mut offsets: Vec<usize> = Vec::new();
    for base in [0usize, 252, 252 + 64008] {
        for k in 3..=16 {
            for d in [-2i64, -1, 0, 1] {
                let p = base as i64 + (1i64 << k) + d;
                if p >= 0 && (p as usize) + 3 < n {
                    offsets.push(p as usize);
                }
            }
        }
    }
    offsets.sort();
    offsets.dedup();
    for &p in &offsets {
        for shape in 0..2 {
            let mut x: Vec<u8> = (0..n).map(|i| (i % 199) as u8).collect();
            x[p] = 0xfe;
            if shape == 0 {
                x[p + 1] = 0xfd;
            } else {
                x[p + 1] = 0xff;
                x[p + 2] = 0xfd;
            }
            let want = ref_enc(&x, 252, 64008);
            for copy in [false, true] {
                let mut e = Encoder::new();
                if copy { e.encode_copy(&x) } else { e.encode(&x) }
                let got = e.finish().flatten().expect("no backpatch left");
                if got != want {
                    report("encoder-output-boundary-offset", &x[p.saturating_sub(2)..p + 4], &format!("p={} shape={} copy={}", p, shape, copy),
                           &format!("len {}", got.len()), &format!("len {}", want.len()));
                }
                if find_stuff_sequence_reference(&got).is_some() {
                    report("encoder-stuff-in-output", &x[p.saturating_sub(2)..p + 4], &format!("p={} shape={} copy={}", p, shape, copy), "FE FD in output", "none");
                }
            }
        }
    }
}

fn find_stuff_sequence_reference(b: &[u8]) -> Option<usize> {
    b.windows(2).position(|w| w == [0xfe, 0xfd])
}

struct FailingReader(std::io::ErrorKind);
impl std::io::Read for FailingReader {
    fn read(&mut self, _dst: &mut [u8]) -> std::io::Result<usize> {
        Err(self.0.into())
    }
}

#[test]
fn verif_cex_failed_read_is_a_no_op() {
    // C17 (codec half): a read that fails with nothing delivered, in the middle of a stream, must leave
    // the encoder's / decoder's output and state untouched.
    let x: &[u8] = b"hello, \xfe\xfd world \xfe";
    let want = ref_enc(x, 252, 64008);
    let one = std::num::NonZeroUsize::new(3).unwrap();
    for cut in 0..=x.len() {
        for kind in [std::io::ErrorKind::Interrupted, std::io::ErrorKind::WouldBlock, std::io::ErrorKind::Other] {
            let mut e = Encoder::new();
            e.encode_copy(&x[..cut]);
            if e.encode_read(FailingReader(kind), 16, one).is_ok() {
                report("encode-read-failed-read-reported-ok", x, &format!("{}", cut), "Ok", "Err");
            }
            e.encode(&x[cut..]);
            let got = e.finish().flatten().expect("no backpatch left");
            if got != want {
                report("encode-read-failed-read-changed-output", x, &format!("{}|{:?}", cut, kind), &hex(&got), &hex(&want));
            }
        }
    }
    for cut in 0..=want.len() {
        for kind in [std::io::ErrorKind::Interrupted, std::io::ErrorKind::WouldBlock, std::io::ErrorKind::Other] {
            let mut d = Decoder::new();
            d.decode_copy(&want[..cut]).expect("valid prefix");
            if d.decode_read(FailingReader(kind), 16, one).is_ok() {
                report("decode-read-failed-read-reported-ok", x, &format!("{}", cut), "Ok", "Err");
            }
            let tail_ok = d.decode_copy(&want[cut..]).is_ok();
            let back = if tail_ok { d.finish().ok().map(|v| v.flatten().expect("flat")) } else { None };
            if back.as_deref() != Some(x) {
                report("decode-read-failed-read-changed-state", &want, &format!("{}|{:?}", cut, kind), &format!("{:?}", back.map(|v| hex(&v))), &hex(x));
            }
        }
    }
}

#[test]
fn verif_cex_encoder_lag_is_bounded() {
    // C09 lag, at slice granularity on the real OwningIovec: after any encode call, output produced but not
    // consumable stays below one (1 MiB) arena chunk + one 64008-byte chunk and its header, whatever the call size.
    let bound = (1usize << 20) + 64008 + 2;
    for copy in [true, false] {
        let big: Vec<u8> = (0..(3usize << 20)).map(|i| (i % 251) as u8).collect();
        let mut e = Encoder::new();
        let mut fed = 0usize;
        for call in [1000usize, 69_000, (1 << 20) + 4097, 3 << 19] {
            let piece = &big[fed..fed + call];
            fed += call;
            if copy { e.encode_copy(piece) } else { e.encode(piece) }
            let c = e.consumer();
            let total = c.total_size();
            let stable: usize = c.stable_prefix().iter().map(|s| s.len()).sum();
            if total - stable > bound {
                report("encoder-lag-unbounded", &[], &format!("call={} copy={}", call, copy), &format!("{}", total - stable), &format!("<= {}", bound));
            }
            drop(c);
            let mut sink = Vec::new();
            drain_all(&mut e.consumer(), &mut sink);
        }
    }
    // Borrowed input only: the arena then holds nothing but chunk headers, so the slice that carries the pending
    // header starts at that header and the lag is the byte-level one: at most ONE maximal chunk and its header
    // (plus a held-back FE).  Two pending headers (e.g. a header parked until the next chunk closes) show here.
    let tight = 64008 + 2 + 16;
    let data: Vec<u8> = (0..400_000usize).map(|i| (i % 251) as u8).collect();
    for piece_len in [4096usize, 8192, 64008, 70_000] {
        let mut e = Encoder::new();
        for (idx, piece) in data.chunks(piece_len).enumerate() {
            e.encode(piece);
            let c = e.consumer();
            let total = c.total_size();
            let stable: usize = c.stable_prefix().iter().map(|s| s.len()).sum();
            if total - stable > tight {
                report("encoder-lag-more-than-one-chunk", &[], &format!("borrowed pieces of {} bytes, after call {}", piece_len, idx),
                       &format!("{}", total - stable), &format!("<= {}", tight));
            }
            drop(c);
            if idx % 3 == 0 {
                let mut sink = Vec::new();
                drain_all(&mut e.consumer(), &mut sink);
            }
        }
    }
}

#[test]
fn verif_cex_decoder_production_headers() {
    // public Decoder, production limits: streams `00 | lo hi | body` for header digits around the radix (FC..FF)
    // and small high digits, with a body of exactly / one less than the announced size, followed by a valid final
    // chunk or nothing -- whole, bytewise, and split inside the two-byte header.  Compared with the automaton twin.
    for lo in [0x00u8, 0x01, 0xfb, 0xfc, 0xfd, 0xfe, 0xff] {
        for hi in [0x00u8, 0x01, 0xfc, 0xfd, 0xff] {
            for short_by in [0usize, 1] {
                for tail in [&[][..], &[0x00, 0x00][..], &[0x01, 0x00, 0x41][..]] {
                    let n = lo as usize + 253 * hi as usize;
                    let body_len = n.min(70_000).saturating_sub(short_by);
                    let mut y: Vec<u8> = vec![0x00, lo, hi];
                    y.extend(std::iter::repeat(0x78u8).take(body_len));
                    y.extend_from_slice(tail);
                    let want = ref_dec(&y, 252, 64008);
                    let run = |pieces: &[&[u8]]| -> Option<Vec<u8>> {
                        let mut d = Decoder::new();
                        for p in pieces {
                            d.decode_copy(p).ok()?;
                        }
                        d.finish().ok().map(|v| v.flatten().expect("flat"))
                    };
                    let whole = run(&[&y]);
                    let split_hdr = run(&[&y[..2], &y[2..]]);
                    let bytes: Vec<&[u8]> = y[..y.len().min(6)].chunks(1).chain(std::iter::once(&y[y.len().min(6)..])).collect();
                    let bytewise = run(&bytes);
                    for (name, got) in [("whole", &whole), ("split-in-header", &split_hdr), ("bytewise-header", &bytewise)] {
                        if *got != want {
                            report("decoder-verdict-prod-header", &y[..y.len().min(8)],
                                   &format!("lo={:02x} hi={:02x} body={} tail={} {}", lo, hi, body_len, tail.len(), name),
                                   &format!("{:?}", got.as_ref().map(|v| v.len())), &format!("{:?}", want.as_ref().map(|v| v.len())));
                        }
                    }
                }
            }
        }
    }
    // the empty stream is not a message
    let d = Decoder::new();
    if d.finish().is_ok() {
        report("decoder-accepts-empty-stream", &[], "-", "Ok", "Err");
    }
}

/// drains up to `want` bytes through the byte-granular consumer interface (copy out of the stable prefix, then
/// `advance_slices(bytes)`), returns how many were drained
fn drain_bytes(consumer: &mut owning_iovec::ConsumingIovec<'_>, want: usize, out: &mut Vec<u8>) -> usize {
    let mut left = want;
    for s in consumer.stable_prefix().iter() {
        let s: &[u8] = s;
        let k = s.len().min(left);
        out.extend_from_slice(&s[..k]);
        left -= k;
        if left == 0 {
            break;
        }
    }
    let got = want - left;
    if got > 0 || want > 0 {
        // ask for the whole budget: the consumer must clip it to what it exposed as consumable
        let adv = consumer.advance_slices(want);
        if adv != got {
            report("advance-slices-consumed-more-or-less-than-exposed", &[], &format!("budget {}", want), &format!("{}", adv), &format!("{}", got));
        }
    }
    got
}

#[test]
fn verif_cex_byte_granular_drains() {
    // larger borrowed pieces (above the 64 / 256-byte copy thresholds of the iovec), chunk boundaries inside and at
    // the ends of pieces, small copied pieces in between, and BYTE-granular drains of various sizes after every call
    let mut pieces: Vec<(Vec<u8>, bool)> = Vec::new();
    for (i, n) in [300usize, 4, 700, 65, 257, 3, 1000].iter().enumerate() {
        let mut p: Vec<u8> = (0..*n).map(|j| ((i * 37 + j) % 199) as u8).collect();
        if i % 2 == 0 && *n >= 2 {
            let l = p.len();
            p[l - 2] = 0xfe;
            p[l - 1] = 0xfd;
        }
        if *n > 100 {
            p[*n / 2] = 0xfe;
            p[*n / 2 + 1] = 0xfd;
        }
        pieces.push((p, *n < 100));
    }
    let whole: Vec<u8> = pieces.iter().flat_map(|(p, _)| p.iter().copied()).collect();
    let want = ref_enc(&whole, 252, 64008);
    for drain in [0usize, 1, 100, 257, 301, usize::MAX] {
        let mut e = Encoder::new();
        let mut drained: Vec<u8> = Vec::new();
        for (p, copy) in &pieces {
            if *copy { e.encode_copy(p) } else { e.encode(p) }
            if drain > 0 {
                drain_bytes(&mut e.consumer(), drain, &mut drained);
            }
            if !want.starts_with(&drained) {
                report("encoder-byte-drain-not-a-prefix", &p[..4.min(p.len())], &format!("drain={}", drain), &format!("len {}", drained.len()), "prefix of the final output");
            }
        }
        let rest = e.finish().flatten().expect("no backpatch left");
        drained.extend_from_slice(&rest);
        if drained != want {
            report("encoder-byte-drain-schedule", &[], &format!("drain={}", drain), &format!("len {}", drained.len()), &format!("len {}", want.len()));
        }
        // and the decoder, fed the encoded stream in 300-byte borrowed pieces with the same byte drains
        let mut d = Decoder::new();
        let mut dd: Vec<u8> = Vec::new();
        for chunk in want.chunks(300) {
            d.decode(chunk).expect("valid stream");
            if drain > 0 {
                drain_bytes(&mut d.consumer(), drain, &mut dd);
            }
        }
        let rest = d.finish().expect("complete").flatten().expect("flat");
        dd.extend_from_slice(&rest);
        if dd != whole {
            report("decoder-byte-drain-schedule", &[], &format!("drain={}", drain), &format!("len {}", dd.len()), &format!("len {}", whole.len()));
        }
    }
}

#[test]
fn verif_cex_read_input_method_equals_the_others() {
    // C01/C02/C17: pieces that arrive through encode_read / decode_read (the anchored path: bytes read into the
    // arena and encoded / decoded by reference) give the same bytes as any other input method.  Every input over
    // {FD, FE, 41} of length <= 6, cut into pieces of 1, 2, 3 bytes and at every 2-way cut; the reader is the slice.
    let many = std::num::NonZeroUsize::new(64).unwrap();
    strings(&[0xfd, 0xfe, 0x41], 6, &mut |x: &[u8]| {
        let want = ref_enc(x, 252, 64008);
        let mut cuts: Vec<Vec<usize>> = (0..=x.len()).map(|c| vec![c]).collect();
        for step in 1..=3usize {
            cuts.push((1..).map(|k| k * step).take_while(|c| *c < x.len()).collect());
        }
        for cs in &cuts {
            let mut pieces: Vec<&[u8]> = Vec::new();
            let mut at = 0;
            for &c in cs.iter().chain(std::iter::once(&x.len())) {
                let c = c.min(x.len());
                pieces.push(&x[at..c]);
                at = c;
            }
            // encoder: every piece through encode_read
            let mut e = Encoder::new();
            for p in &pieces {
                match e.encode_read(*p, p.len(), many) {
                    Ok(n) if n == p.len() => {}
                    other => report("encode-read-short", x, &format!("{:?}", cs), &format!("{:?}", other.map_err(|e| e.kind())), &format!("Ok({})", p.len())),
                }
            }
            let got = e.finish().flatten().expect("no backpatch left");
            if got != want {
                report("encode-read-differs-from-encode", x, &format!("{:?}", cs), &hex(&got), &hex(&want));
            }
            // encoder used as a ZeroCopySink (what rough_tlv writes into): append_copy / append_borrow alternating
            {
                use owning_iovec::ZeroCopySink;
                let mut e = Encoder::new();
                for (k, p) in pieces.iter().enumerate() {
                    if k % 2 == 0 { e.append_copy(p) } else { e.append_borrow(p) }
                }
                let got = e.finish().flatten().expect("no backpatch left");
                if got != want {
                    report("zero-copy-sink-differs-from-encode", x, &format!("{:?}", cs), &hex(&got), &hex(&want));
                }
            }
            // decoder: the encoded stream through decode_read, cut at the same relative places
            let y = &want;
            let mut d = Decoder::new();
            let mut at = 0;
            let mut ok = true;
            for &c in cs.iter().chain(std::iter::once(&x.len())) {
                let yc = ((c.min(x.len())) * y.len()) / x.len().max(1);
                let yc = yc.max(at).min(y.len());
                let piece = &y[at..yc];
                at = yc;
                if d.decode_read(piece, piece.len(), many).is_err() {
                    ok = false;
                    break;
                }
            }
            if ok && at < y.len() {
                ok = d.decode_read(&y[at..], y.len() - at, many).is_ok();
            }
            let back = if ok { d.finish().ok().map(|v| v.flatten().expect("flat")) } else { None };
            if back.as_deref() != Some(x) {
                report("decode-read-differs-from-decode", x, &format!("{:?}", cs), &format!("{:?}", back.map(|v| hex(&v))), &hex(x));
            }
        }
    });
}
