// C09 frame: whatever a consumer could already have observed stays, unchanged, a prefix.
// A prefix length n is *stable* in (bytes, pending) when it lies below every pending placeholder.
spec fn stable_len(bytes: Seq<u8>, pending: Set<int>, n: int) -> bool {
    0 <= n <= bytes.len() && forall|p: int| pending.contains(p) ==> n <= p
}
spec fn spk(b0: Seq<u8>, p0: Set<int>, b1: Seq<u8>, p1: Set<int>) -> bool {
    forall|n: int| #[trigger] stable_len(b0, p0, n) ==> stable_len(b1, p1, n) && b1.take(n) == b0.take(n)
}
spec fn stable_prefix_kept(a: &OwningIovec, b: &OwningIovec) -> bool {
    spk(a.bytes(), a.pending(), b.bytes(), b.pending())
}
proof fn lemma_spk_refl(b: Seq<u8>, p: Set<int>) ensures spk(b, p, b, p) { }
proof fn lemma_spk_trans(b0: Seq<u8>, p0: Set<int>, b1: Seq<u8>, p1: Set<int>, b2: Seq<u8>, p2: Set<int>)
    requires spk(b0, p0, b1, p1), spk(b1, p1, b2, p2)
    ensures spk(b0, p0, b2, p2)
{
    assert forall|n: int| #[trigger] stable_len(b0, p0, n) implies stable_len(b2, p2, n) && b2.take(n) == b0.take(n) by {
        assert(stable_len(b1, p1, n));
    }
}
proof fn lemma_stable_trans(a: &OwningIovec, b: &OwningIovec, c: &OwningIovec)
    requires stable_prefix_kept(a, b), stable_prefix_kept(b, c)
    ensures stable_prefix_kept(a, c)
{ lemma_spk_trans(a.bytes(), a.pending(), b.bytes(), b.pending(), c.bytes(), c.pending()); }
proof fn lemma_spk_append(b0: Seq<u8>, p0: Set<int>, src: Seq<u8>)
    ensures spk(b0, p0, b0 + src, p0)
{
    assert forall|n: int| #[trigger] stable_len(b0, p0, n) implies stable_len(b0 + src, p0, n) && (b0 + src).take(n) == b0.take(n) by {
        assert((b0 + src).take(n) =~= b0.take(n));
    }
}
proof fn lemma_spk_register(b0: Seq<u8>, p0: Set<int>, pat: Seq<u8>)
    ensures spk(b0, p0, b0 + pat, p0.insert(b0.len() as int))
{
    assert forall|n: int| #[trigger] stable_len(b0, p0, n) implies stable_len(b0 + pat, p0.insert(b0.len() as int), n) && (b0 + pat).take(n) == b0.take(n) by {
        assert((b0 + pat).take(n) =~= b0.take(n));
    }
}
proof fn lemma_spk_backfill(b0: Seq<u8>, p0: Set<int>, at: int, src: Seq<u8>)
    requires p0.contains(at), 0 <= at, at + src.len() <= b0.len()
    ensures spk(b0, p0, splice(b0, at, src), p0.remove(at))
{
    assert forall|n: int| #[trigger] stable_len(b0, p0, n) implies stable_len(splice(b0, at, src), p0.remove(at), n) && splice(b0, at, src).take(n) == b0.take(n) by {
        assert(n <= at);
        assert(splice(b0, at, src).take(n) =~= b0.take(n));
    }
}
proof fn lemma_spk_extend(b3: Seq<u8>, p3: Set<int>, b4: Seq<u8>)
    requires b3.len() <= b4.len(), b4.take(b3.len() as int) == b3
    ensures spk(b3, p3, b4, p3.insert(b3.len() as int)), spk(b3, p3, b4, p3)
{
    assert forall|n: int| #[trigger] stable_len(b3, p3, n) implies
        stable_len(b4, p3.insert(b3.len() as int), n) && stable_len(b4, p3, n) && b4.take(n) == b3.take(n) by {
        assert(b4.take(n) =~= b4.take(b3.len() as int).take(n));
    }
}
// open chunk grows: optional flushed FE, then a payload
proof fn lemma_frame_open(b0: Seq<u8>, p0: Set<int>, mid: bool, b1: Seq<u8>, payload: Seq<u8>, b2: Seq<u8>)
    requires b1 == (if mid { b0 + seq![0xfeu8] } else { b0 }), b2 == b1 + payload
    ensures spk(b0, p0, b2, p0)
{
    lemma_spk_append(b0, p0, seq![0xfeu8]);
    lemma_spk_append(b1, p0, payload);
    lemma_spk_refl(b0, p0);
    lemma_spk_trans(b0, p0, b1, p0, b2, p0);
}
// chunk closes: header backfilled at a pending offset, next placeholder registered at the end
proof fn lemma_frame_close(b0: Seq<u8>, p0: Set<int>, b2: Seq<u8>, start: int, h: Seq<u8>, b3: Seq<u8>, p3: Set<int>,
    b4: Seq<u8>, p4: Set<int>)
    requires spk(b0, p0, b2, p0), p0.contains(start), 0 <= start, start + h.len() <= b2.len(),
        b3 == splice(b2, start, h), p3 == p0.remove(start),
        b3.len() <= b4.len(), b4.take(b3.len() as int) == b3, p4 == p3.insert(b3.len() as int)
    ensures spk(b0, p0, b4, p4)
{
    lemma_spk_backfill(b2, p0, start, h);
    lemma_spk_extend(b3, p3, b4);
    lemma_spk_trans(b0, p0, b2, p0, b3, p3);
    lemma_spk_trans(b0, p0, b3, p3, b4, p4);
}
