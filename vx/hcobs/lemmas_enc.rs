// Pure lemmas about the canonical encoding: no stuff sequence anywhere in enc(x) (L-NS) and the
// length bound (L-LEN).  No code involved.
spec fn lim_ok(max: int, m1: int, first: bool) -> bool {
    0 < m1 <= 64008 && 0 < max && (if first { max <= 252 } else { max == m1 })
}

proof fn lemma_hdr_small(n: int, first: bool)
    requires 0 <= n <= 64008, first ==> n <= 252
    ensures forall|k: int| 0 <= k < hdr(n, first).len() ==> #[trigger] hdr(n, first)[k] < 0xfdu8,
        hdr(n, first).len() > 0, no_stuff(hdr(n, first))
{
    let d1 = n / 253;
    assert(0 <= d1 < 253) by (nonlinear_arith) requires 0 <= n <= 64008, d1 == n / 253;
    assert forall|i: int| !is_stuff_at(hdr(n, first), i) by { }
}

proof fn lemma_window_stuff2(x: Seq<u8>, max: int)
    requires max > 0, has_stuff(window(x, max))
    ensures ({ let i = stuff_idx(window(x, max)); first_stuff(x, i) && 0 <= i && i + 2 <= max && i + 2 <= x.len() })
{
    let w = window(x, max);
    lemma_first_stuff_exists(w);
    let i = stuff_idx(w);
    assert(is_stuff_at(x, i));
    assert forall|j: int| j < i implies !is_stuff_at(x, j) by {
        if is_stuff_at(x, j) { assert(is_stuff_at(w, j)); }
    }
}
proof fn lemma_window_nostuff2(x: Seq<u8>, max: int)
    requires max > 0, !has_stuff(window(x, max))
    ensures x.len() >= max ==> no_stuff(x.take(max)), x.len() < max ==> no_stuff(x)
{
    let w = window(x, max);
    assert forall|i: int| !is_stuff_at(w, i) by { }
    if x.len() > max { assert(w == x.take(max)); }
    else if x.len() == max { assert(x.take(max) =~= x); }
}
proof fn lemma_prefix_before_stuff(x: Seq<u8>, i: int)
    requires first_stuff(x, i)
    ensures no_stuff(x.take(i))
{
    assert forall|j: int| !is_stuff_at(x.take(i), j) by {
        if is_stuff_at(x.take(i), j) { assert(is_stuff_at(x, j)); }
    }
}

// shape: header ++ body ++ rest, where rest is empty or starts with a byte < FD
proof fn lemma_glue(h: Seq<u8>, c: Seq<u8>, rest: Seq<u8>)
    requires h.len() > 0, forall|k: int| 0 <= k < h.len() ==> #[trigger] h[k] < 0xfdu8,
        no_stuff(h), no_stuff(c), no_stuff(rest), rest.len() > 0 ==> rest[0] < 0xfdu8
    ensures no_stuff(h + c + rest), (h + c + rest).len() > 0, (h + c + rest)[0] < 0xfdu8
{
    assert(h.last() < 0xfdu8);
    lemma_no_stuff_concat(h, c);
    lemma_no_stuff_concat(h + c, rest);
}

proof fn lemma_enc_no_stuff(x: Seq<u8>, max: int, m1: int, first: bool)
    requires lim_ok(max, m1, first)
    ensures no_stuff(enc(x, max, m1, first)), enc(x, max, m1, first).len() > 0, enc(x, max, m1, first)[0] < 0xfdu8
    decreases x.len()
{
    hide(enc);
    if has_stuff(window(x, max)) {
        lemma_window_stuff2(x, max);
        let i = stuff_idx(window(x, max));
        lemma_enc_stuff(x, i, max, m1, first);
        lemma_hdr_small(i, first);
        lemma_prefix_before_stuff(x, i);
        lemma_enc_no_stuff(x.skip(i + 2), m1, m1, false);
        lemma_glue(hdr(i, first), x.take(i), enc(x.skip(i + 2), m1, m1, false));
    } else {
        lemma_window_nostuff2(x, max);
        if x.len() >= max {
            lemma_enc_full(x, max, m1, first);
            lemma_hdr_small(max, first);
            lemma_enc_no_stuff(x.skip(max), m1, m1, false);
            lemma_glue(hdr(max, first), x.take(max), enc(x.skip(max), m1, m1, false));
        } else {
            lemma_enc_short(x, max, m1, first);
            lemma_hdr_small(x.len() as int, first);
            lemma_glue(hdr(x.len() as int, first), x, Seq::<u8>::empty());
            assert(hdr(x.len() as int, first) + x + Seq::<u8>::empty() =~= hdr(x.len() as int, first) + x);
        }
    }
}


spec fn hl(first: bool) -> int { if first { 1 } else { 2 } }
// number of size-limited (full) chunks an n-byte stuff-free input can produce
spec fn fc(n: int, max: int, m1: int) -> int { if n >= max { 1 + (n - max) / m1 } else { 0 } }

proof fn lemma_fc_mono(k: int, n: int, max: int, m1: int)
    requires 0 <= k, k + 2 <= n, 0 < max <= m1, (n >= max || k < m1)
    ensures k / m1 <= fc(n, max, m1)
{
    if n >= max {
        assert(k / m1 <= 1 + (n - max) / m1) by (nonlinear_arith)
            requires 0 <= k <= n, 0 < max <= m1, n >= max;
    } else {
        assert(k / m1 == 0) by (nonlinear_arith) requires 0 <= k < m1;
    }
}

proof fn lemma_enc_len(x: Seq<u8>, max: int, m1: int, first: bool)
    requires 0 < max <= m1, !first ==> max == m1
    ensures enc(x, max, m1, first).len() <= x.len() + hl(first) + 2 * fc(x.len() as int, max, m1)
    decreases x.len()
{
    hide(enc);
    let n = x.len() as int;
    if has_stuff(window(x, max)) {
        lemma_window_stuff2(x, max);
        let i = stuff_idx(window(x, max));
        lemma_enc_stuff(x, i, max, m1, first);
        let rest = x.skip(i + 2);
        lemma_enc_len(rest, m1, m1, false);
        let k = n - i - 2;
        assert(fc(k, m1, m1) == k / m1) by (nonlinear_arith) requires 0 <= k, 0 < m1,
            fc(k, m1, m1) == (if k >= m1 { 1 + (k - m1) / m1 } else { 0 });
        if n < max { assert(k < m1); }
        lemma_fc_mono(k, n, max, m1);
    } else {
        lemma_window_nostuff2(x, max);
        if n >= max {
            lemma_enc_full(x, max, m1, first);
            let rest = x.skip(max);
            lemma_enc_len(rest, m1, m1, false);
            let k = n - max;
            assert(fc(k, m1, m1) == k / m1) by (nonlinear_arith) requires 0 <= k, 0 < m1,
                fc(k, m1, m1) == (if k >= m1 { 1 + (k - m1) / m1 } else { 0 });
        } else {
            lemma_enc_short(x, max, m1, first);
        }
    }
}

// the bound as stated in C02: len + 1 + 2*ceil(len/m1)
proof fn theorem_len_bound(x: Seq<u8>, m0: int, m1: int)
    requires 0 < m0 <= m1
    ensures enc(x, m0, m1, true).len() <= x.len() + 1 + 2 * ((x.len() + m1 - 1) / m1)
{
    lemma_enc_len(x, m0, m1, true);
    let n = x.len() as int;
    assert(fc(n, m0, m1) <= (n + m1 - 1) / m1) by (nonlinear_arith)
        requires 0 <= n, 0 < m0 <= m1, fc(n, m0, m1) == (if n >= m0 { 1 + (n - m0) / m1 } else { 0 });
}

