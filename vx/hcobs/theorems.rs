// Top-level statements: each listed property as a lemma over the contracts above.

// ---- C01 (spec level): the decoder automaton maps the canonical encoding of x back to x and
// stops in the only accepting state (Decoder::finish is Ok exactly there).
proof fn theorem_c01_round_trip(x: Seq<u8>)
    ensures drun(DState::Initial, prod_enc(x), 252, 64008) == (DState::Before { insert: true }, x)
{
    theorem_round_trip(x, 252, 64008);
}

// ---- C01/C02b: feeding pieces one after the other composes (any segmentation, any input method:
// every encode* wrapper has the same `sem' (z) == sem(piece ++ z)` postcondition).
proof fn theorem_split_compose(f0: spec_fn(Seq<u8>) -> Seq<u8>, f1: spec_fn(Seq<u8>) -> Seq<u8>,
    f2: spec_fn(Seq<u8>) -> Seq<u8>, a: Seq<u8>, b: Seq<u8>)
    requires forall|z: Seq<u8>| #[trigger] f1(z) == f0(a + z), forall|z: Seq<u8>| #[trigger] f2(z) == f1(b + z)
    ensures forall|z: Seq<u8>| #[trigger] f2(z) == f0((a + b) + z)
{
    assert forall|z: Seq<u8>| #[trigger] f2(z) == f0((a + b) + z) by {
        assert(a + (b + z) =~= (a + b) + z);
    }
}
// ...so a fresh Encoder fed a then b and finished returns prod_enc(a ++ b): a function of the
// concatenation only.
proof fn theorem_two_pieces(f0: spec_fn(Seq<u8>) -> Seq<u8>, f1: spec_fn(Seq<u8>) -> Seq<u8>,
    f2: spec_fn(Seq<u8>) -> Seq<u8>, a: Seq<u8>, b: Seq<u8>)
    requires forall|z: Seq<u8>| #[trigger] f0(z) == prod_enc(z),
        forall|z: Seq<u8>| #[trigger] f1(z) == f0(a + z), forall|z: Seq<u8>| #[trigger] f2(z) == f1(b + z)
    ensures f2(Seq::<u8>::empty()) == prod_enc(a + b)
{
    theorem_split_compose(f0, f1, f2, a, b);
    assert((a + b) + Seq::<u8>::empty() =~= a + b);
}

// ---- C01/C07: the decoder's verdict and output do not depend on how the stream is cut into calls.
proof fn theorem_decode_split(s: DState, a: Seq<u8>, b: Seq<u8>)
    ensures ({
        let (s1, o1) = drun(s, a, 252, 64008);
        let (s2, o2) = drun(s1, b, 252, 64008);
        drun(s, a + b, 252, 64008) == (s2, o1 + o2)
    })
{
    lemma_drun_concat(s, a, b, 252, 64008);
}

// ---- C02a: no stuff sequence anywhere in the output (internal slice boundaries and drain points are
// positions in this one byte string).
proof fn theorem_c02_no_stuff(x: Seq<u8>)
    ensures no_stuff(prod_enc(x))
{
    lemma_enc_no_stuff(x, 252, 64008, true);
}

// ---- C02c: length bound.
proof fn theorem_c02_length(x: Seq<u8>)
    ensures prod_enc(x).len() <= x.len() + 1 + 2 * ((x.len() + 64007) / 64008)
{
    theorem_len_bound(x, 252, 64008);
}

// ---- C09: lag.  At every call boundary the encoder's unconsumable suffix is at most one chunk and
// its header; everything before the header placeholder is stable when nothing else is pending.
proof fn theorem_c09_encoder_lag(st: EncoderState, iov: &OwningIovec)
    requires st.wf_i(iov, 252, 64008), iov.pending().remove(st.bstart()) == Set::<int>::empty()
    ensures iov.bytes().len() - st.bstart() <= 2 + 64008, stable_len(iov.bytes(), iov.pending(), st.bstart())
{
    assert forall|p: int| iov.pending().contains(p) implies st.bstart() <= p by {
        if p != st.bstart() { assert(iov.pending().remove(st.bstart()).contains(p)); }
    }
}
// The decoder registers no placeholder: with nothing pending, everything it produced is stable.
proof fn theorem_c09_decoder_lag(bytes: Seq<u8>, pending: Set<int>)
    requires pending == Set::<int>::empty()
    ensures stable_len(bytes, pending, bytes.len() as int)
{ }
