spec fn params_ok(p: Parameters) -> bool {
    0 < p.max_initial_size@ <= 252 && 0 < p.max_subsequent_size@ <= 64008
}
