spec fn lim0(p: Parameters) -> int { p.max_initial_size@ as int }
spec fn lim1(p: Parameters) -> int { p.max_subsequent_size@ as int }
// admissible chunk limits: a one-byte header needs size < 253, a two-byte header size < 253^2; m0 <= m1
// is what the length bound of C02 needs (252 <= 64008 in production)
spec fn lims_ok(m0: int, m1: int) -> bool { 0 < m0 <= 252 && 0 < m1 <= 64008 }
spec fn params_ok(p: Parameters) -> bool { lims_ok(lim0(p), lim1(p)) }
