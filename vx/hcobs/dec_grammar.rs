// L-DEC: the byte-at-a-time automaton `drun` accepts exactly the well-formed chunk sequences that end on a
// short chunk, as defined by the one-shot grammar `parse` below (an independent, declarative reading of the
// format), and produces exactly the payload the grammar defines.  Pure spec-level lemma (C07, decoder half).
spec fn hlen(first: bool) -> int { if first { 1 } else { 2 } }
spec fn hval(y: Seq<u8>, first: bool) -> int {
    if first { y[0] as int } else { y[0] as int + 253 * (y[1] as int) }
}
spec fn hdigits_ok(y: Seq<u8>, first: bool) -> bool { first || (y[0] < 253 && y[1] < 253) }
spec fn hlim(first: bool, m0: int, m1: int) -> int { if first { m0 } else { m1 } }

// A message is: header (1 byte for the first chunk, 2 little-endian radix-253 digits afterwards) giving the
// chunk size n <= limit, n body bytes, then: if the chunk is short (n < limit) either the end of the message or
// an implied FE FD followed by the rest; if the chunk is full (n == limit) the rest, which must not be empty.
spec fn parse(y: Seq<u8>, first: bool, m0: int, m1: int) -> Option<Seq<u8>>
    decreases y.len()
{
    let hl = hlen(first);
    let lim = hlim(first, m0, m1);
    if y.len() < hl { None } else {
        let n = hval(y, first);
        if !hdigits_ok(y, first) || n > lim || y.len() < hl + n { None } else {
            let body = y.subrange(hl, hl + n);
            let rest = y.skip(hl + n);
            if rest.len() == 0 {
                if n < lim { Some(body) } else { None }
            } else {
                match parse(rest, false, m0, m1) {
                    Some(r) => Some(body + (if n < lim { stuff() } else { Seq::<u8>::empty() }) + r),
                    None => None,
                }
            }
        }
    }
}

proof fn lemma_drun_two(s: DState, y: Seq<u8>, m0: int, m1: int)
    requires y.len() == 2
    ensures ({
        let (s1, o1) = dstep(s, y[0], m0, m1);
        let (s2, o2) = dstep(s1, y[1], m0, m1);
        drun(s, y, m0, m1) == (s2, o1 + o2)
    })
{
    let (s1, o1) = dstep(s, y[0], m0, m1);
    lemma_drun_one(s1, y.skip(1), m0, m1);
    assert(y.skip(1)[0] == y[1]);
}

// the state and output after the header bytes of y
spec fn after_hdr_state(y: Seq<u8>, first: bool, m0: int, m1: int) -> DState {
    if !hdigits_ok(y, first) { DState::Fail } else { after_header(hval(y, first), hlim(first, m0, m1)) }
}

proof fn lemma_drun_header(y: Seq<u8>, first: bool, ins: bool, m0: int, m1: int)
    requires lims_ok(m0, m1), y.len() >= hlen(first)
    ensures drun(start_state(first, ins), y.take(hlen(first)), m0, m1).0 == after_hdr_state(y, first, m0, m1),
        !(after_hdr_state(y, first, m0, m1) is Fail) ==>
            drun(start_state(first, ins), y.take(hlen(first)), m0, m1).1 == pre_out(first, ins),
{
    let h = y.take(hlen(first));
    if first {
        lemma_drun_one(DState::Initial, h, m0, m1);
    } else {
        lemma_drun_two(DState::Before { insert: ins }, h, m0, m1);
        let out = if ins { stuff() } else { Seq::<u8>::empty() };
        assert(out + Seq::<u8>::empty() =~= out);
        assert(h[0] == y[0] && h[1] == y[1]);
    }
}

proof fn lemma_parts(y: Seq<u8>, hl: int, n: int)
    requires 0 <= hl, 0 <= n, hl + n <= y.len()
    ensures y == y.take(hl) + (y.subrange(hl, hl + n) + y.skip(hl + n)),
        y.skip(hl).take(n) == y.subrange(hl, hl + n), y.skip(hl).skip(n) == y.skip(hl + n),
        y == y.take(hl) + y.skip(hl),
{
    assert(y =~= y.take(hl) + (y.subrange(hl, hl + n) + y.skip(hl + n)));
    assert(y.skip(hl).take(n) =~= y.subrange(hl, hl + n));
    assert(y.skip(hl).skip(n) =~= y.skip(hl + n));
    assert(y =~= y.take(hl) + y.skip(hl));
}

proof fn lemma_dec_equiv(y: Seq<u8>, first: bool, ins: bool, m0: int, m1: int)
    requires lims_ok(m0, m1), first || y.len() > 0
    ensures ({
        let (s, o) = drun(start_state(first, ins), y, m0, m1);
        match parse(y, first, m0, m1) {
            Some(out) => s == (DState::Before { insert: true }) && o == pre_out(first, ins) + out,
            None => s != (DState::Before { insert: true }),
        }
    })
    decreases y.len()
{
    let s0 = start_state(first, ins);
    let hl = hlen(first);
    let lim = hlim(first, m0, m1);
    let pre = pre_out(first, ins);
    if y.len() < hl {
        if !first {
            lemma_drun_one(s0, y, m0, m1);
        }
    } else {
        let h = y.take(hl);
        let rest0 = y.skip(hl);
        lemma_parts(y, hl, 0);
        lemma_drun_header(y, first, ins, m0, m1);
        lemma_drun_concat(s0, h, rest0, m0, m1);
        let a = after_hdr_state(y, first, m0, m1);
        let n = hval(y, first);
        if a is Fail {
            lemma_drun_fail(rest0, m0, m1);
        } else if n == 0 {
            // empty (necessarily short) chunk
            assert(a == DState::Before { insert: true });
            assert(y.subrange(hl, hl + 0) =~= Seq::<u8>::empty());
            if rest0.len() == 0 {
                assert(pre + Seq::<u8>::empty() =~= pre);
                assert(pre + y.subrange(hl, hl) =~= pre);
            } else {
                lemma_dec_equiv(rest0, false, true, m0, m1);
                match parse(rest0, false, m0, m1) {
                    Some(r) => {
                        assert(pre + (stuff() + r) =~= pre + (y.subrange(hl, hl) + stuff() + r));
                    }
                    None => {}
                }
            }
        } else {
            let t = n < lim;
            assert(a == DState::In { remaining: n, term: t });
            if rest0.len() < n {
                if rest0.len() > 0 {
                    lemma_drun_in_partial(rest0, n, t, m0, m1);
                }
            } else {
                lemma_parts(y, hl, n);
                let body = y.subrange(hl, hl + n);
                let rest = y.skip(hl + n);
                assert(rest0 =~= body + rest);
                lemma_drun_in_partial(body, n, t, m0, m1);
                lemma_drun_concat(a, body, rest, m0, m1);
                if rest.len() == 0 {
                    assert(body + Seq::<u8>::empty() =~= body);
                    assert(pre + (body + Seq::<u8>::empty()) =~= pre + body);
                } else {
                    lemma_dec_equiv(rest, false, t, m0, m1);
                    match parse(rest, false, m0, m1) {
                        Some(r) => {
                            let mid = if t { stuff() } else { Seq::<u8>::empty() };
                            assert(pre + (body + (mid + r)) =~= pre + (body + mid + r));
                        }
                        None => {}
                    }
                }
            }
        }
    }
}

// C07, decoder half, at the top level and with the production limits: the decoder automaton run from its
// initial state ends in the accepting state exactly on the strings the grammar accepts, with the grammar's payload.
proof fn theorem_c07_decoder_accepts_exactly_the_format(y: Seq<u8>)
    ensures ({
        let (s, o) = drun(DState::Initial, y, 252, 64008);
        match parse(y, true, 252, 64008) {
            Some(out) => s == (DState::Before { insert: true }) && o == out,
            None => s != (DState::Before { insert: true }),
        }
    })
{
    lemma_dec_equiv(y, true, false, 252, 64008);
    match parse(y, true, 252, 64008) {
        Some(out) => { assert(Seq::<u8>::empty() + out =~= out); }
        None => {}
    }
}
