// Abstraction of the real decoder state onto the spec automaton, and bulk-step lemmas.
spec fn dview(s: DecoderState) -> DState {
    match s {
        DecoderState::InitialState(_) => DState::Initial,
        DecoderState::BeforeChunk(b) => DState::Before { insert: b.should_insert_stuff_sequence },
        DecoderState::MidHeader(m) => DState::Mid { b0: m.initial_byte },
        DecoderState::InChunk(c) => DState::In { remaining: c.remaining@ as int, term: c.terminate_with_stuff_sequence },
    }
}

// result of one header-state step, as the real functions report it
spec fn step_matches(pre: DState, b: u8, p: Parameters, ret: DResult<(DecoderState, usize)>, out: Seq<u8>) -> bool {
    let (s1, o1) = dstep(pre, b, lim0(p), lim1(p));
    match ret {
        Ok((ds, n)) => n == 1 && dview(ds) == s1 && !(s1 is Fail) && out == o1,
        Err(_) => s1 is Fail,
    }
}

proof fn lemma_drun_one(s: DState, y: Seq<u8>, m0: int, m1: int)
    requires y.len() == 1
    ensures drun(s, y, m0, m1) == dstep(s, y[0], m0, m1)
{
    reveal_with_fuel(drun, 2);
    assert(y.skip(1).len() == 0);
    let (s1, o1) = dstep(s, y[0], m0, m1);
    assert(o1 + Seq::<u8>::empty() =~= o1);
}

proof fn lemma_drun_fail(y: Seq<u8>, m0: int, m1: int)
    ensures drun(DState::Fail, y, m0, m1) == (DState::Fail, Seq::<u8>::empty())
    decreases y.len()
{
    if y.len() > 0 {
        lemma_drun_fail(y.skip(1), m0, m1);
        assert(Seq::<u8>::empty() + Seq::<u8>::empty() =~= Seq::<u8>::empty());
    }
}

// k <= remaining bytes of chunk body
proof fn lemma_drun_in_partial(c: Seq<u8>, remaining: int, term: bool, m0: int, m1: int)
    requires 0 < c.len() <= remaining
    ensures drun(DState::In { remaining, term }, c, m0, m1)
        == (if c.len() == remaining { DState::Before { insert: term } } else { DState::In { remaining: remaining - c.len(), term } }, c)
    decreases c.len()
{
    let s = DState::In { remaining, term };
    reveal_with_fuel(drun, 2);
    if c.len() == 1 {
        assert(c.skip(1).len() == 0);
        assert(seq![c[0]] + Seq::<u8>::empty() =~= c);
    } else {
        lemma_drun_in_partial(c.skip(1), remaining - 1, term, m0, m1);
        assert(seq![c[0]] + c.skip(1) =~= c);
    }
}

// loop bookkeeping for DecoderState::decode_{copy,borrow}
proof fn lemma_dec_step(s0: DState, done: Seq<u8>, piece: Seq<u8>, scur: DState, ocur: Seq<u8>, snext: DState, onext: Seq<u8>,
    m0: int, m1: int)
    requires drun(s0, done, m0, m1) == (scur, ocur), drun(scur, piece, m0, m1) == (snext, onext)
    ensures drun(s0, done + piece, m0, m1) == (snext, ocur + onext)
{
    lemma_drun_concat(s0, done, piece, m0, m1);
}
proof fn lemma_dec_fail(s0: DState, done: Seq<u8>, piece: Seq<u8>, rest: Seq<u8>, scur: DState, ocur: Seq<u8>, m0: int, m1: int)
    requires drun(s0, done, m0, m1) == (scur, ocur), drun(scur, piece, m0, m1).0 is Fail
    ensures drun(s0, (done + piece) + rest, m0, m1).0 is Fail
{
    lemma_drun_concat(s0, done, piece, m0, m1);
    lemma_drun_concat(s0, done + piece, rest, m0, m1);
    lemma_drun_fail(rest, m0, m1);
}
proof fn lemma_split3(input0: Seq<u8>, done: Seq<u8>, inp: Seq<u8>, c: int)
    requires done + inp == input0, 0 <= c <= inp.len()
    ensures (done + inp.take(c)) + inp.skip(c) == input0, inp.skip(c) == inp.subrange(c, inp.len() as int)
{
    assert((done + inp.take(c)) + inp.skip(c) =~= done + inp);
    assert(inp.skip(c) =~= inp.subrange(c, inp.len() as int));
}

// what decode_copy / decode_borrow promise, as one predicate
spec fn decode_post(s0: DecoderState, input: Seq<u8>, p: Parameters, b0: Seq<u8>, b1: Seq<u8>, ret: DResult<DecoderState>) -> bool {
    let (s, out) = drun(dview(s0), input, lim0(p), lim1(p));
    match ret {
        Ok(r) => !(s is Fail) && dview(r) == s && b1 == b0 + out,
        Err(_) => s is Fail,
    }
}
proof fn lemma_skip_suffix(a: Seq<u8>, b: Seq<u8>)
    requires exists|x: Seq<u8>| b == a + x
    ensures b == a + b.skip(a.len() as int)
{
    let x = choose|x: Seq<u8>| b == a + x;
    assert(b.skip(a.len() as int) =~= x);
}
spec fn is_prefix(a: Seq<u8>, b: Seq<u8>) -> bool { a.len() <= b.len() && b.take(a.len() as int) == a }
proof fn lemma_prefix_append(a: Seq<u8>, x: Seq<u8>) ensures is_prefix(a, a + x)
{ assert((a + x).take(a.len() as int) =~= a); }
