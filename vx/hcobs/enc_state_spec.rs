impl EncoderState {
    // --- contract vocabulary ---
    spec fn first(&self) -> bool { self.backref.blen() == 1 }
    spec fn bstart(&self) -> int { self.backref.start() }
    spec fn body_start(&self) -> int { self.backref.start() + self.backref.blen() }
    spec fn tail(&self, iov: &OwningIovec) -> Seq<u8> {
        iov.bytes().skip(self.body_start()) + (if self.maybe_mid_stuff { seq![0xfeu8] } else { seq![] })
    }
    spec fn wf_i(&self, iov: &OwningIovec, m0: int, m1: int) -> bool {
        &&& lims_ok(m0, m1)
        &&& (self.backref.blen() == 1 || self.backref.blen() == 2)
        &&& self.max_chunk_size@ == (if self.first() { m0 } else { m1 })
        &&& 0 <= self.backref.start()
        &&& self.body_start() + self.current_chunk_size == iov.bytes().len()
        &&& iov.pending().contains(self.backref.start())
        &&& self.current_chunk_size + (if self.maybe_mid_stuff { 1int } else { 0 }) < self.max_chunk_size@
        &&& no_stuff(self.tail(iov))
        &&& (!self.maybe_mid_stuff && self.current_chunk_size > 0 ==> iov.bytes().last() != 0xfeu8)
    }
    spec fn wf(&self, iov: &OwningIovec, params: Parameters) -> bool { self.wf_i(iov, lim0(params), lim1(params)) }
    spec fn bumped(&self, pre: &Self, n: int) -> bool {
        &&& self.max_chunk_size == pre.max_chunk_size
        &&& self.current_chunk_size == pre.current_chunk_size + n
        &&& self.maybe_mid_stuff == pre.maybe_mid_stuff
        &&& self.backref == pre.backref
    }
    spec fn meaning_i(&self, iov: &OwningIovec, m1: int, z: Seq<u8>) -> Seq<u8> {
        iov.bytes().take(self.backref.start())
            + enc(self.tail(iov) + z, self.max_chunk_size@ as int, m1, self.first())
    }
    spec fn meaning(&self, iov: &OwningIovec, params: Parameters, z: Seq<u8>) -> Seq<u8> {
        self.meaning_i(iov, lim1(params), z)
    }
}

#[verifier::prophetic]
spec fn writer_ok<'s, F: FnOnce(&mut EncoderState, &mut OwningIovec<'s>, usize)>(writer: F, input: Seq<u8>) -> bool {
    &&& forall|this: &mut EncoderState, iov: &mut OwningIovec<'s>, n: usize|
            n <= input.len() && this.current_chunk_size + n <= this.max_chunk_size@
                ==> #[trigger] writer.requires((this, iov, n))
    &&& forall|this: &mut EncoderState, iov: &mut OwningIovec<'s>, n: usize|
            #[trigger] writer.ensures((this, iov, n), ()) ==> {
                &&& final(iov).bytes() == iov.bytes() + input.take(n as int)
                &&& final(iov).pending() == iov.pending()
                &&& final(this).bumped(&*this, n as int)
            }
}

proof fn lemma_no_stuff_concat(a: Seq<u8>, b: Seq<u8>)
    requires no_stuff(a), no_stuff(b), a.len() > 0 && b.len() > 0 ==> !(a.last() == 0xfeu8 && b[0] == 0xfdu8)
    ensures no_stuff(a + b)
{
    assert forall|i: int| !is_stuff_at(a + b, i) by {
        if is_stuff_at(a + b, i) {
            if i + 1 < a.len() { assert(is_stuff_at(a, i)); }
            else if i >= a.len() { assert(is_stuff_at(b, i - a.len())); }
            else { }
        }
    }
}

// first stuff sequence of t ++ p, when t has none, none straddles, and p's first is at idx
proof fn lemma_first_stuff_concat(t: Seq<u8>, p: Seq<u8>, idx: int)
    requires no_stuff(t), first_stuff(p, idx), t.len() > 0 ==> !(t.last() == 0xfeu8 && p[0] == 0xfdu8)
    ensures first_stuff(t + p.take(idx + 2), t.len() + idx)
{
    let x = t + p.take(idx + 2);
    let i = t.len() + idx;
    assert(is_stuff_at(x, i));
    assert forall|j: int| j < i implies !is_stuff_at(x, j) by {
        if is_stuff_at(x, j) {
            if j + 1 < t.len() { assert(is_stuff_at(t, j)); }
            else if j >= t.len() { assert(is_stuff_at(p, j - t.len())); }
            else { }
        }
    }
}

// chunk closed by a stuff sequence that ends exactly at the end of x
proof fn lemma_enc_close_stuff(x: Seq<u8>, z: Seq<u8>, i: int, max: int, m1: int, first: bool)
    requires max > 0, m1 > 0, first_stuff(x, i), i + 2 == x.len(), i + 2 <= max
    ensures enc(x + z, max, m1, first) == hdr(i, first) + x.take(i) + enc(z, m1, m1, false)
{
    let y = x + z;
    assert(is_stuff_at(y, i));
    assert forall|j: int| j < i implies !is_stuff_at(y, j) by {
        if is_stuff_at(y, j) { assert(is_stuff_at(x, j)); }
    }
    lemma_enc_stuff(y, i, max, m1, first);
    assert(y.take(i) =~= x.take(i));
    assert(y.skip(i + 2) =~= z);
}

proof fn lemma_enc_close_full(x: Seq<u8>, z: Seq<u8>, max: int, m1: int, first: bool)
    requires max > 0, m1 > 0, x.len() == max, no_stuff(x)
    ensures enc(x + z, max, m1, first) == hdr(max, first) + x + enc(z, m1, m1, false)
{
    let y = x + z;
    assert(y.take(max) =~= x);
    lemma_enc_full(y, max, m1, first);
    assert(y.skip(max) =~= z);
}

proof fn lemma_splice_header(b0: Seq<u8>, b1: Seq<u8>, start: int, h: Seq<u8>, chunk: Seq<u8>)
    requires 0 <= start, start + h.len() <= b1.len(), start <= b0.len(),
        b1.take(start) == b0.take(start), b1.skip(start + h.len()) == chunk
    ensures splice(b1, start, h) == b0.take(start) + h + chunk
{ }

proof fn lemma_assoc4(a: Seq<u8>, h: Seq<u8>, c: Seq<u8>, e: Seq<u8>)
    ensures a + (h + c + e) == (a + h + c) + e
{ assert(a + (h + c + e) =~= (a + h + c) + e); }


proof fn lemma_branch_a(w: Seq<u8>, t0: Seq<u8>, input0: Seq<u8>)
    requires t0 == w + seq![0xfeu8], input0.len() > 0, input0[0] == 0xfdu8, no_stuff(t0)
    ensures first_stuff(t0 + input0.take(1), t0.len() - 1), (t0 + input0.take(1)).take(t0.len() - 1) == w,
        (t0 + input0.take(1)).len() == t0.len() + 1
{
    let gx = t0 + input0.take(1);
    let gi = t0.len() - 1;
    assert(is_stuff_at(gx, gi));
    assert forall|j: int| j < gi implies !is_stuff_at(gx, j) by {
        if is_stuff_at(gx, j) { assert(is_stuff_at(t0, j)); }
    }
    assert(gx.take(gi) =~= w);
}

proof fn lemma_flush(b0: Seq<u8>, b1: Seq<u8>, bs: int, t0: Seq<u8>, mid: bool)
    requires 0 <= bs <= b0.len(), b1 == (if mid { b0 + seq![0xfeu8] } else { b0 }),
        t0 == b0.skip(bs) + (if mid { seq![0xfeu8] } else { seq![] })
    ensures b1.skip(bs) == t0, b1.take(bs) == b0.take(bs), b1.len() == bs + t0.len()
{
    assert(b1.skip(bs) =~= t0);
    assert(b1.take(bs) =~= b0.take(bs));
}

proof fn lemma_b1(t0: Seq<u8>, input0: Seq<u8>, k: int, index: int)
    requires no_stuff(t0), 0 <= k <= input0.len(), first_stuff(input0.take(k), index),
        t0.len() > 0 && k > 0 ==> !(t0.last() == 0xfeu8 && input0[0] == 0xfdu8)
    ensures first_stuff(t0 + input0.take(index + 2), t0.len() + index),
        (t0 + input0.take(index + 2)).take(t0.len() + index) == t0 + input0.take(index),
        (t0 + input0.take(index + 2)).len() == t0.len() + index + 2,
        input0.take(k).take(index) == input0.take(index),
        index + 2 <= k
{
    let inp = input0.take(k);
    lemma_first_stuff_concat(t0, inp, index);
    assert(inp.take(index + 2) =~= input0.take(index + 2));
    assert((t0 + input0.take(index + 2)).take(t0.len() + index) =~= t0 + input0.take(index));
    assert(inp.take(index) =~= input0.take(index));
}

proof fn lemma_b2(t0: Seq<u8>, input0: Seq<u8>, k: int)
    requires no_stuff(t0), 0 < k <= input0.len(), no_stuff(input0.take(k)),
        t0.len() > 0 ==> !(t0.last() == 0xfeu8 && input0[0] == 0xfdu8)
    ensures no_stuff(t0 + input0.take(k)), (t0 + input0.take(k)).len() == t0.len() + k,
        input0.take(k).take(k) == input0.take(k)
{
    lemma_no_stuff_concat(t0, input0.take(k));
    assert(input0.take(k).take(k) =~= input0.take(k));
}

proof fn lemma_after_write(b0: Seq<u8>, b1: Seq<u8>, b2: Seq<u8>, bs: int, t0: Seq<u8>, p: Seq<u8>)
    requires 0 <= bs <= b0.len(), b1.skip(bs) == t0, b1.take(bs) == b0.take(bs), bs <= b1.len(), b2 == b1 + p
    ensures b2.skip(bs) == t0 + p, b2.take(bs) == b0.take(bs), b2.len() == b1.len() + p.len()
{
    assert(b2.skip(bs) =~= t0 + p);
    assert(b2.take(bs) =~= b0.take(bs));
}

proof fn lemma_take_take(b: Seq<u8>, b0: Seq<u8>, start: int, bs: int)
    requires 0 <= start <= bs <= b0.len(), bs <= b.len(), b.take(bs) == b0.take(bs)
    ensures b.take(start) == b0.take(start)
{
    assert(b.take(start) =~= b.take(bs).take(start));
    assert(b0.take(start) =~= b0.take(bs).take(start));
}

proof fn lemma_skip_hdr(b: Seq<u8>, start: int, hl: int, chunk: Seq<u8>)
    requires 0 <= start, 0 <= hl, start + hl <= b.len(), b.skip(start + hl) == chunk
    ensures true
{ }

// B3: the open chunk simply grows
proof fn lemma_b3(t0: Seq<u8>, input0: Seq<u8>, k: int, z: Seq<u8>)
    requires k == input0.len()
    ensures (t0 + input0.take(k)) + z == t0 + (input0.take(k) + z), input0.take(k) == input0
{
    assert(input0.take(k) =~= input0);
    assert((t0 + input0) + z =~= t0 + (input0 + z));
}

proof fn lemma_close(pre: Seq<u8>, gx: Seq<u8>, gi: int, gfull: bool, chunk: Seq<u8>, z: Seq<u8>, max: int, m1: int, first: bool)
    requires max > 0, m1 > 0,
        gfull ==> chunk == gx && gx.len() == max && no_stuff(gx),
        !gfull ==> chunk == gx.take(gi) && first_stuff(gx, gi) && gi + 2 == gx.len() && gi + 2 <= max
    ensures pre + enc(gx + z, max, m1, first) == (pre + hdr(chunk.len() as int, first) + chunk) + enc(seq![] + z, m1, m1, false)
{
    if gfull { lemma_enc_close_full(gx, z, max, m1, first); }
    else { lemma_enc_close_stuff(gx, z, gi, max, m1, first); }
    assert(seq![] + z =~= z);
    lemma_assoc4(pre, hdr(chunk.len() as int, first), chunk, enc(z, m1, m1, false));
}

proof fn lemma_assoc3(t0: Seq<u8>, p: Seq<u8>, z: Seq<u8>)
    ensures t0 + (p + z) == (t0 + p) + z
{ assert(t0 + (p + z) =~= (t0 + p) + z); }
proof fn lemma_loop_init(input0: Seq<u8>) ensures Seq::<u8>::empty() + input0 == input0
{ assert(Seq::<u8>::empty() + input0 =~= input0); }
proof fn lemma_loop_step(input0: Seq<u8>, done: Seq<u8>, inp: Seq<u8>, c: int, rest: Seq<u8>)
    requires done + inp == input0, 0 <= c <= inp.len(), rest == inp.subrange(c, inp.len() as int)
    ensures (done + inp.take(c)) + rest == input0
{ assert((done + inp.take(c)) + rest =~= done + inp); }
