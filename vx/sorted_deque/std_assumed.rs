// ASSUMED std contracts used by SortedDeque (none of these has a vstd specification).

// `==` on core::cmp::Ordering (derived PartialEq): structural equality.
pub assume_specification[<Ordering as PartialEq>::eq](a: &Ordering, b: &Ordering) -> (r: bool)
    ensures r == (*a == *b);

// A comparator closure `f` computes the spec function `g`.
pub open spec fn computes<'a, T: 'a, F: FnMut(&'a T) -> Ordering>(f: F, g: spec_fn(T) -> Ordering) -> bool {
    forall|x: T, o: Ordering| #[trigger] f.ensures((&x,), o) ==> o == g(x)
}
// `s` is partitioned by `g`: every Less before every Equal before every Greater (what binary search requires).
pub open spec fn partitioned<T>(s: Seq<T>, g: spec_fn(T) -> Ordering) -> bool {
    forall|i: int, j: int| 0 <= i < j < s.len() ==>
        (g(s[j]) == Ordering::Less ==> g(s[i]) == Ordering::Less) && (g(s[i]) == Ordering::Greater ==> g(s[j]) == Ordering::Greater)
}
// <[T]>::binary_search_by, as documented: Ok(i) => the comparator says Equal at i; on a slice partitioned by the
// comparator, Err => it says Equal nowhere.  (Which of several Equal elements is found is unspecified; the insertion
// point carried by Err is not used.)
pub assume_specification<'a, T, F: FnMut(&'a T) -> Ordering>[<[T]>::binary_search_by](s: &'a [T], f: F) -> (r: Result<usize, usize>)
    requires forall|i: int| 0 <= i < s@.len() ==> #[trigger] f.requires((&s@[i],)),
    ensures
        r is Ok ==> r->Ok_0 < s@.len() && f.ensures((&s@[r->Ok_0 as int],), Ordering::Equal),
        r is Err ==> r->Err_0 <= s@.len(),
        forall|g: spec_fn(T) -> Ordering| #[trigger] computes(f, g) && partitioned(s@, g) && r is Err ==>
            forall|i: int| 0 <= i < s@.len() ==> g(#[trigger] s@[i]) != Ordering::Equal,
;
