// Contract vocabulary for SortedDeque<Container, Marker>, generic in both: the proofs use only the contracts of
// PushTruncateContainer / SlidingDeque (unit sliding_deque) and of SortedDequeComparator / SortedDequeMarker.

// ---- the order laws a comparator must obey (ASSUMED of every Marker; what `Ord` promises for the two provided
// conventions).  Kept opaque: instantiated only through the lemmas below, never by the solver's own matching.
#[verifier::opaque]
pub open spec fn order_laws<T, M: SortedDequeComparator<T>>(m: &M) -> bool {
    &&& forall|x: M::Key, y: M::Key| (#[trigger] m.ord(&x, &y) == Ordering::Less) <==> (m.ord(&y, &x) == Ordering::Greater)
    &&& forall|x: M::Key, y: M::Key, z: M::Key| #![trigger m.ord(&x, &y), m.ord(&y, &z)]
            m.ord(&x, &y) == Ordering::Less && m.ord(&y, &z) == Ordering::Less ==> m.ord(&x, &z) == Ordering::Less
    &&& forall|x: M::Key, y: M::Key, z: M::Key| #![trigger m.ord(&x, &y), m.ord(&z, &x)]
            m.ord(&x, &y) == Ordering::Equal ==> m.ord(&z, &x) == m.ord(&z, &y)
}
pub proof fn law_antisym<T, M: SortedDequeComparator<T>>(m: &M, x: M::Key, y: M::Key)
    requires order_laws::<T, M>(m)
    ensures (m.ord(&x, &y) == Ordering::Less) <==> (m.ord(&y, &x) == Ordering::Greater)
{ reveal(order_laws); }
pub proof fn law_trans<T, M: SortedDequeComparator<T>>(m: &M, x: M::Key, y: M::Key, z: M::Key)
    requires order_laws::<T, M>(m), m.ord(&x, &y) == Ordering::Less, m.ord(&y, &z) == Ordering::Less
    ensures m.ord(&x, &z) == Ordering::Less
{ reveal(order_laws); }
pub proof fn law_equal_right<T, M: SortedDequeComparator<T>>(m: &M, x: M::Key, y: M::Key, z: M::Key)
    requires order_laws::<T, M>(m), m.ord(&x, &y) == Ordering::Equal
    ensures m.ord(&z, &x) == m.ord(&z, &y)
{ reveal(order_laws); }

// ---- physical items: keys strictly increasing (erased items keep their key and their place)
pub open spec fn sorted<T, M: SortedDequeComparator<T>>(s: Seq<T>, m: &M) -> bool {
    forall|i: int, j: int| 0 <= i < j < s.len() ==> m.ord(&m.key_of(&s[i]), &m.key_of(&s[j])) == Ordering::Less
}
// the first and the last physical item are live (the code's own check_rep)
pub open spec fn ends_live<T, M: SortedDequeComparator<T>>(s: Seq<T>, m: &M) -> bool {
    s.len() > 0 ==> !m.erased(&s[0]) && !m.erased(&s.last())
}
// ---- the reference ordered map: the live items, in (key) order
pub open spec fn live_of<T, M: SortedDequeComparator<T>>(s: Seq<T>, m: &M) -> Seq<T>
    decreases s.len()
{
    if s.len() == 0 { Seq::empty() }
    else if m.erased(&s.last()) { live_of(s.drop_last(), m) }
    else { live_of(s.drop_last(), m).push(s.last()) }
}

impl<Container, Marker> SortedDeque<Container, Marker>
where
    Container: PushTruncateContainer + Clone + Default,
    Container::Item: Copy,
    Marker: SortedDequeComparator<Container::Item> + Clone,
{
    pub closed spec fn phys(&self) -> Seq<Container::Item> { self.items.view() }
    pub closed spec fn mk(&self) -> &Marker { &self.marker }
    // representation invariant at every public call boundary
    pub closed spec fn wf(&self) -> bool {
        self.items.rep_ok() && order_laws::<Container::Item, Marker>(&self.marker) && sorted(self.phys(), &self.marker)
            && ends_live(self.phys(), &self.marker)
    }
    // abstract value: the reference ordered map
    pub closed spec fn live(&self) -> Seq<Container::Item> { live_of(self.phys(), &self.marker) }
}

// number of leading erased items
pub open spec fn erased_prefix<T, M: SortedDequeComparator<T>>(s: Seq<T>, m: &M) -> int
    decreases s.len()
{
    if s.len() == 0 || !m.erased(&s[0]) { 0 } else { 1 + erased_prefix(s.skip(1), m) }
}

// erased_prefix is the only k with: items before k erased, item k (if any) live
pub proof fn lemma_erased_prefix_is<T, M: SortedDequeComparator<T>>(s: Seq<T>, m: &M, k: int)
    requires 0 <= k <= s.len(), forall|i: int| 0 <= i < k ==> m.erased(&#[trigger] s[i]), k < s.len() ==> !m.erased(&s[k])
    ensures erased_prefix(s, m) == k
    decreases s.len()
{
    if k > 0 {
        assert(m.erased(&s[0]));
        let t = s.skip(1);
        assert forall|i: int| 0 <= i < k - 1 implies m.erased(&#[trigger] t[i]) by { assert(t[i] == s[i + 1]); }
        if k - 1 < t.len() { assert(t[k - 1] == s[k]); }
        lemma_erased_prefix_is(t, m, k - 1);
    }
}

// ---- lemmas about sorted / live_of ---------------------------------------------------------------------------
pub proof fn lemma_sorted_push<T, M: SortedDequeComparator<T>>(s: Seq<T>, m: &M, x: T)
    requires sorted(s, m), order_laws::<T, M>(m),
        s.len() > 0 ==> m.ord(&m.key_of(&s.last()), &m.key_of(&x)) == Ordering::Less
    ensures sorted(s.push(x), m)
{
    let t = s.push(x);
    assert forall|i: int, j: int| 0 <= i < j < t.len() implies m.ord(&m.key_of(&t[i]), &m.key_of(&t[j])) == Ordering::Less by {
        if j == s.len() && i < s.len() - 1 {
            law_trans::<T, M>(m, m.key_of(&s[i]), m.key_of(&s.last()), m.key_of(&x));
        }
    }
}
// under ends_live: no live item <=> no physical item
pub proof fn lemma_live_nonempty<T, M: SortedDequeComparator<T>>(s: Seq<T>, m: &M)
    requires ends_live(s, m)
    ensures (live_of(s, m).len() == 0) == (s.len() == 0), s.len() > 0 ==> live_of(s, m).last() == s.last()
{
}
// live_of, unfolded from the front
pub proof fn lemma_live_unfold_front<T, M: SortedDequeComparator<T>>(s: Seq<T>, m: &M)
    requires s.len() > 0
    ensures live_of(s, m) == (if m.erased(&s[0]) { live_of(s.skip(1), m) } else { seq![s[0]] + live_of(s.skip(1), m) })
    decreases s.len()
{
    if s.len() == 1 {
        assert(s.drop_last() =~= Seq::<T>::empty());
        assert(s.skip(1) =~= Seq::<T>::empty());
        assert(live_of(s, m) =~= (if m.erased(&s[0]) { live_of(s.skip(1), m) } else { seq![s[0]] + live_of(s.skip(1), m) }));
    } else {
        lemma_live_unfold_front(s.drop_last(), m);
        assert(s.drop_last().skip(1) =~= s.skip(1).drop_last());
        assert(s.skip(1).last() == s.last());
        assert(s.drop_last()[0] == s[0]);
        assert(live_of(s, m) =~= (if m.erased(&s[0]) { live_of(s.skip(1), m) } else { seq![s[0]] + live_of(s.skip(1), m) }));
    }
}
pub proof fn lemma_live_front<T, M: SortedDequeComparator<T>>(s: Seq<T>, m: &M)
    requires s.len() > 0, !m.erased(&s[0])
    ensures live_of(s, m).len() > 0, live_of(s, m)[0] == s[0], live_of(s, m).skip(1) == live_of(s.skip(1), m)
{
    lemma_live_unfold_front(s, m);
    assert((seq![s[0]] + live_of(s.skip(1), m)).skip(1) =~= live_of(s.skip(1), m));
}
// any contiguous part of a sorted sequence is sorted
pub proof fn lemma_sorted_sub<T, M: SortedDequeComparator<T>>(s: Seq<T>, m: &M, a: int, b: int)
    requires sorted(s, m), 0 <= a <= b <= s.len()
    ensures sorted(s.subrange(a, b), m)
{
    let t = s.subrange(a, b);
    assert forall|i: int, j: int| 0 <= i < j < t.len() implies m.ord(&m.key_of(&t[i]), &m.key_of(&t[j])) == Ordering::Less by {
        assert(t[i] == s[a + i] && t[j] == s[a + j]);
    }
}
// dropping a tail of erased items does not change the live items
pub proof fn lemma_live_drop_erased_tail<T, M: SortedDequeComparator<T>>(s: Seq<T>, m: &M, n: int)
    requires 0 <= n <= s.len(), forall|i: int| n <= i < s.len() ==> m.erased(&#[trigger] s[i])
    ensures live_of(s.take(n), m) == live_of(s, m)
    decreases s.len() - n
{
    if n == s.len() {
        assert(s.take(n) =~= s);
    } else {
        assert(m.erased(&s[s.len() - 1]));
        lemma_live_drop_erased_tail(s.drop_last(), m, n);
        assert(s.drop_last().take(n) =~= s.take(n));
    }
}
// the erased prefix: its items are erased, the item after it (if any) is live, and skipping it keeps the live items
pub proof fn lemma_erased_prefix<T, M: SortedDequeComparator<T>>(s: Seq<T>, m: &M)
    ensures 0 <= erased_prefix(s, m) <= s.len(),
        forall|i: int| 0 <= i < erased_prefix(s, m) ==> m.erased(&#[trigger] s[i]),
        erased_prefix(s, m) < s.len() ==> !m.erased(&s[erased_prefix(s, m)]),
        live_of(s.skip(erased_prefix(s, m)), m) == live_of(s, m),
    decreases s.len()
{
    if s.len() == 0 || !m.erased(&s[0]) {
        assert(s.skip(0) =~= s);
    } else {
        lemma_erased_prefix(s.skip(1), m);
        let k = erased_prefix(s.skip(1), m);
        assert forall|i: int| 0 <= i < 1 + k implies m.erased(&#[trigger] s[i]) by {
            if i > 0 { assert(s[i] == s.skip(1)[i - 1]); }
        }
        if 1 + k < s.len() { assert(s[1 + k] == s.skip(1)[k]); }
        assert(s.skip(1).skip(k) =~= s.skip(1 + k));
        lemma_live_unfold_front(s, m);
    }
}
// a sorted sequence is partitioned by "compare my key with `key`" (what binary search needs)
pub proof fn lemma_partitioned<T, M: SortedDequeComparator<T>>(s: Seq<T>, m: &M, key: M::Key)
    requires sorted(s, m), order_laws::<T, M>(m)
    ensures partitioned(s, |x: T| m.ord(&m.key_of(&x), &key))
{
    let g = |x: T| m.ord(&m.key_of(&x), &key);
    assert forall|i: int, j: int| 0 <= i < j < s.len() implies
        (g(s[j]) == Ordering::Less ==> g(s[i]) == Ordering::Less) && (g(s[i]) == Ordering::Greater ==> g(s[j]) == Ordering::Greater) by {
        let ki = m.key_of(&s[i]);
        let kj = m.key_of(&s[j]);
        assert(m.ord(&ki, &kj) == Ordering::Less);
        if m.ord(&kj, &key) == Ordering::Less {
            law_trans::<T, M>(m, ki, kj, key);
        }
        if m.ord(&ki, &key) == Ordering::Greater {
            law_antisym::<T, M>(m, key, ki);      // key < ki
            law_trans::<T, M>(m, key, ki, kj);    // key < kj
            law_antisym::<T, M>(m, key, kj);      // kj > key
        }
    }
}
// membership in the live items <=> a non-erased physical item
pub proof fn lemma_live_members<T, M: SortedDequeComparator<T>>(s: Seq<T>, m: &M)
    ensures
        forall|i: int| 0 <= i < s.len() && !m.erased(&#[trigger] s[i]) ==> live_of(s, m).contains(s[i]),
        forall|k: int| 0 <= k < live_of(s, m).len() ==> !m.erased(&#[trigger] live_of(s, m)[k]) && s.contains(live_of(s, m)[k]),
    decreases s.len()
{
    if s.len() > 0 {
        let p = s.drop_last();
        lemma_live_members(p, m);
        let l = live_of(s, m);
        assert forall|i: int| 0 <= i < s.len() && !m.erased(&#[trigger] s[i]) implies l.contains(s[i]) by {
            if i < p.len() {
                assert(p[i] == s[i]);
                let k = choose|k: int| 0 <= k < live_of(p, m).len() && live_of(p, m)[k] == p[i];
                assert(l[k] == s[i]);
            } else {
                assert(l[l.len() - 1] == s[i]);
            }
        }
        assert forall|k: int| 0 <= k < l.len() implies !m.erased(&#[trigger] l[k]) && s.contains(l[k]) by {
            if k < live_of(p, m).len() {
                assert(l[k] == live_of(p, m)[k]);
                let i = choose|i: int| 0 <= i < p.len() && p[i] == live_of(p, m)[k];
                assert(s[i] == l[k]);
            } else {
                assert(l[k] == s[s.len() - 1]);
            }
        }
    }
}
// in a sorted sequence at most one item has a key Equal to `key`
pub proof fn lemma_only_one_equal<T, M: SortedDequeComparator<T>>(s: Seq<T>, m: &M, idx: int, key: M::Key)
    requires sorted(s, m), order_laws::<T, M>(m), 0 <= idx < s.len(), m.ord(&m.key_of(&s[idx]), &key) == Ordering::Equal
    ensures forall|j: int| 0 <= j < s.len() && j != idx ==> m.ord(&m.key_of(&#[trigger] s[j]), &key) != Ordering::Equal
{
    assert forall|j: int| 0 <= j < s.len() && j != idx implies m.ord(&m.key_of(&#[trigger] s[j]), &key) != Ordering::Equal by {
        let ki = m.key_of(&s[idx]);
        let kj = m.key_of(&s[j]);
        law_equal_right::<T, M>(m, ki, key, kj);   // ord(kj, ki) == ord(kj, key)
        if j < idx {
            assert(m.ord(&kj, &ki) == Ordering::Less);
        } else {
            assert(m.ord(&ki, &kj) == Ordering::Less);
            law_antisym::<T, M>(m, ki, kj);
        }
    }
}
// ---- vocabulary of `remove`
pub open spec fn none_equal<T, M: SortedDequeComparator<T>>(l: Seq<T>, m: &M, key: M::Key) -> bool {
    forall|i: int| 0 <= i < l.len() ==> m.ord(&m.key_of(&#[trigger] l[i]), &key) != Ordering::Equal
}
pub open spec fn removed_one<T>(a: Seq<T>, b: Seq<T>, x: T) -> bool {
    exists|i: int| 0 <= i < a.len() && a[i] == x && b == a.remove(i)
}
pub proof fn lemma_live_concat<T, M: SortedDequeComparator<T>>(a: Seq<T>, b: Seq<T>, m: &M)
    ensures live_of(a + b, m) == live_of(a, m) + live_of(b, m)
    decreases b.len()
{
    if b.len() == 0 {
        assert(a + b =~= a);
        assert(live_of(a, m) + live_of(b, m) =~= live_of(a, m));
    } else {
        lemma_live_concat(a, b.drop_last(), m);
        assert((a + b).drop_last() =~= a + b.drop_last());
        assert((a + b).last() == b.last());
        assert(live_of(a + b, m) =~= live_of(a, m) + live_of(b, m));
    }
}
// the live items around physical position idx
pub proof fn lemma_live_split<T, M: SortedDequeComparator<T>>(s: Seq<T>, m: &M, idx: int)
    requires 0 <= idx < s.len()
    ensures live_of(s, m) == live_of(s.take(idx), m) + live_of(seq![s[idx]], m) + live_of(s.skip(idx + 1), m),
        live_of(seq![s[idx]], m) == (if m.erased(&s[idx]) { Seq::<T>::empty() } else { seq![s[idx]] }),
{
    assert(s =~= s.take(idx) + seq![s[idx]] + s.skip(idx + 1));
    lemma_live_concat(s.take(idx) + seq![s[idx]], s.skip(idx + 1), m);
    lemma_live_concat(s.take(idx), seq![s[idx]], m);
    let one = seq![s[idx]];
    assert(one.drop_last() =~= Seq::<T>::empty());
    assert(live_of(one.drop_last(), m) =~= Seq::<T>::empty());
    assert(one.last() == s[idx]);
    assert(live_of(one, m) =~= (if m.erased(&s[idx]) { Seq::<T>::empty() } else { seq![s[idx]] }));
}
// logically erasing the live item at a middle position removes exactly that item from the reference map and keeps
// the representation invariant's sequence part
pub proof fn lemma_erase_middle<T, M: SortedDequeComparator<T>>(s: Seq<T>, m: &M, idx: int, y: T)
    requires 0 < idx < s.len() - 1, !m.erased(&s[idx]), m.erased(&y), m.key_of(&y) == m.key_of(&s[idx]),
        sorted(s, m), ends_live(s, m)
    ensures removed_one(live_of(s, m), live_of(s.update(idx, y), m), s[idx]),
        sorted(s.update(idx, y), m), ends_live(s.update(idx, y), m),
{
    let t = s.update(idx, y);
    lemma_live_split(s, m, idx);
    lemma_live_split(t, m, idx);
    assert(t.take(idx) =~= s.take(idx));
    assert(t.skip(idx + 1) =~= s.skip(idx + 1));
    let a = live_of(s.take(idx), m);
    let b = live_of(s.skip(idx + 1), m);
    assert(live_of(s, m) == a + seq![s[idx]] + b);
    assert(live_of(t, m) =~= a + b);
    let k = a.len() as int;
    assert((a + seq![s[idx]] + b)[k] == s[idx]);
    assert((a + seq![s[idx]] + b).remove(k) =~= a + b);
    assert forall|i: int, j: int| 0 <= i < j < t.len() implies m.ord(&m.key_of(&t[i]), &m.key_of(&t[j])) == Ordering::Less by {
        assert(m.key_of(&t[i]) == m.key_of(&s[i]) && m.key_of(&t[j]) == m.key_of(&s[j]));
    }
}
// if no physical item of t has a key Equal to `key`, no live item of t has
pub proof fn lemma_none_equal_live<T, M: SortedDequeComparator<T>>(t: Seq<T>, m: &M, key: M::Key)
    requires forall|j: int| 0 <= j < t.len() ==> m.ord(&m.key_of(&#[trigger] t[j]), &key) != Ordering::Equal
    ensures none_equal(live_of(t, m), m, key)
{
    lemma_live_members(t, m);
    let l = live_of(t, m);
    assert forall|k: int| 0 <= k < l.len() implies m.ord(&m.key_of(&#[trigger] l[k]), &key) != Ordering::Equal by {
        assert(t.contains(l[k]));
        let j = choose|j: int| 0 <= j < t.len() && t[j] == l[k];
        assert(m.ord(&m.key_of(&t[j]), &key) != Ordering::Equal);
    }
}
pub proof fn lemma_none_equal_concat<T, M: SortedDequeComparator<T>>(a: Seq<T>, b: Seq<T>, m: &M, key: M::Key)
    requires none_equal(a, m, key), none_equal(b, m, key)
    ensures none_equal(a + b, m, key)
{
    assert forall|i: int| 0 <= i < (a + b).len() implies m.ord(&m.key_of(&#[trigger] (a + b)[i]), &key) != Ordering::Equal by {
        if i < a.len() { assert((a + b)[i] == a[i]); } else { assert((a + b)[i] == b[i - a.len()]); }
    }
}
