// Counterexample SEARCH for failed obligations of the chunker unit (see vx/hcobs/cex_search.rs for the rules:
// it decides nothing, it only tries to attach a concrete failing input on the real code).
use super::*;

fn hex(b: &[u8]) -> String {
    b.iter().map(|x| format!("{:02x}", x)).collect::<Vec<_>>().join("")
}

/// delivers at most `step` bytes per read call; the call with index `eintr_at` fails with Interrupted instead
struct Dribble<'a> {
    data: &'a [u8],
    step: usize,
    calls: usize,
    eintr_at: usize,
}
impl<'a> std::io::Read for Dribble<'a> {
    fn read(&mut self, dst: &mut [u8]) -> std::io::Result<usize> {
        let call = self.calls;
        self.calls += 1;
        if call == self.eintr_at {
            return Err(std::io::ErrorKind::Interrupted.into());
        }
        let n = dst.len().min(self.step).min(self.data.len());
        dst[..n].copy_from_slice(&self.data[..n]);
        self.data = &self.data[n..];
        Ok(n)
    }
}

fn strings(alphabet: &[u8], maxlen: usize, f: &mut dyn FnMut(&[u8])) {
    fn rec(alphabet: &[u8], maxlen: usize, cur: &mut Vec<u8>, f: &mut dyn FnMut(&[u8])) {
        f(cur);
        if cur.len() == maxlen {
            return;
        }
        for &a in alphabet {
            cur.push(a);
            rec(alphabet, maxlen, cur, f);
            cur.pop();
        }
    }
    rec(alphabet, maxlen, &mut Vec::new(), f);
}

/// short inputs in full, long ones as length + the non-zero bytes with their positions
fn show(s: &[u8]) -> String {
    if s.len() <= 64 {
        return hex(s);
    }
    let nz: Vec<String> = s.iter().enumerate().filter(|(_, b)| **b != 0).take(24).map(|(i, b)| format!("{}:{:02x}", i, b)).collect();
    format!("len{}[zero-filled-except {}]", s.len(), nz.join(","))
}

/// pumps the whole stream `s` through a fresh StreamChunker and checks C08 on every chunk
fn run_one(s: &[u8], block: usize, step: usize, eintr_at: usize, max_pumps: usize) {
        let mut arena = owning_iovec::ByteArena::default();
        let mut chunker = StreamChunker::default();
        let mut reader = Dribble { data: s, step, calls: 0, eintr_at };
        let mut rebuilt: Vec<u8> = Vec::new();
        let mut prev_data_ended_in_fe = false;
        let mut pumps = 0;
        loop {
            pumps += 1;
            if pumps > max_pumps {
                println!("VERIF-CEX kind=chunker-no-eof input={} block={} step={} eintr_at={}", show(s), block, step, eintr_at);
                panic!("VERIF-CEX");
            }
            let bad = |what: &str| -> ! {
                println!("VERIF-CEX kind=chunker-{} input={} block={} step={} eintr_at={}", what, show(s), block, step, eintr_at);
                panic!("VERIF-CEX {}", what);
            };
            let chunk = match chunker.pump(&mut arena, &mut reader, block) {
                Ok(c) => c,
                Err(e) if e.kind() == std::io::ErrorKind::Interrupted => continue,
                Err(_) => bad("io-error"),
            };
            match chunk {
                Chunk::Eof => {
                    if rebuilt != s {
                        bad("eof-before-end");
                    }
                    break;
                }
                Chunk::Sentinel(o) => {
                    rebuilt.extend_from_slice(&[0xfe, 0xfd]);
                    if o as usize != rebuilt.len() || !s.starts_with(&rebuilt) {
                        bad("sentinel-not-in-stream");
                    }
                    prev_data_ended_in_fe = false;
                }
                Chunk::Data((o, d)) => {
                    let d = d.slice();
                    if d.is_empty() {
                        bad("empty-data");
                    }
                    if d.windows(2).any(|w| w == [0xfe, 0xfd]) {
                        bad("sentinel-hidden-in-data");
                    }
                    if prev_data_ended_in_fe && d[0] == 0xfd {
                        bad("sentinel-straddles-data-chunks");
                    }
                    rebuilt.extend_from_slice(d);
                    if o as usize != rebuilt.len() || !s.starts_with(&rebuilt) {
                        bad("data-not-in-stream");
                    }
                    prev_data_ended_in_fe = *d.last().unwrap() == 0xfe;
                }
            }
        }
}

#[test]
fn verif_cex_chunker_tiles_the_stream() {
    strings(&[0x00, 0xfd, 0xfe], 6, &mut |s: &[u8]| {
        for block in 0..=5usize {
            for step in [1usize, 2, 1000] {
                // one interrupted call at every position of the schedule (usize::MAX = none); a caller retries on EINTR
                for eintr_at in [usize::MAX, 0, 1, 2, 3, 4, 5] {
                    run_one(s, block, step, eintr_at, 64);
                }
            }
        }
    });
}

/// Large I/O blocks (every in-tree test and the enumeration above use blocks of a few bytes): long zero-filled streams with
/// FE / FD / FE FD placed around the powers of two where a buffer cap or a block boundary could sit.
#[test]
fn verif_cex_chunker_large_blocks() {
    let len = 140_000usize;
    let mut marks: Vec<usize> = Vec::new();
    for p in [1usize << 12, 1 << 13, 1 << 15, 1 << 16, 1 << 17] {
        for d in 0..=4usize {
            marks.push(p + d - 2);
        }
    }
    let patterns: [&[u8]; 5] = [&[0xfe, 0xfd], &[0xfe], &[0xfe, 0xfe, 0xfd], &[0xfd, 0xfe], &[0xfe, 0x00, 0xfd]];
    for &block in &[4096usize, 65_536, 65_537, 100_000, 1 << 17, 1 << 20] {
        for &at in &marks {
            for pat in patterns {
                let mut s = vec![0u8; len];
                s[at..at + pat.len()].copy_from_slice(pat);
                // a second sentinel early on, so that the buffer handed to the scan does not start at a block boundary
                for lead in [usize::MAX, 5] {
                    if lead != usize::MAX {
                        s[lead] = 0xfe;
                        s[lead + 1] = 0xfd;
                    }
                    for step in [usize::MAX, 50_000] {
                        run_one(&s, block, step, usize::MAX, 4096);
                    }
                }
            }
        }
    }
}
