// ASSUMED contracts for StreamChunker::pump's dependencies (owning_iovec arena types, the reader).
#[verifier::external_type_specification]
#[verifier::external_body]
pub struct ExIoError(std::io::Error);
#[verifier::external_trait_specification]
pub trait ExRead {
    type ExternalTraitSpecificationFor: std::io::Read;
}
type Result<T> = std::io::Result<T>;

#[verifier::external_body]
struct ByteArena { _p: u8 }

// An anchored slice is, for this property, the byte string it exposes (liveness of the memory is C05).
#[verifier::external_body]
struct AnchoredSlice { _p: u8 }
impl AnchoredSlice {
    uninterp spec fn contents(&self) -> Seq<u8>;
    #[verifier::external_body]
    fn slice(&self) -> (r: &[u8])
        ensures r@ == self.contents()
    { unimplemented!() }
    // leaves an empty slice behind and returns the old value
    #[verifier::external_body]
    fn take(&mut self) -> (r: AnchoredSlice)
        ensures r.contents() == old(self).contents(), final(self).contents() == Seq::<u8>::empty()
    { unimplemented!() }
    #[verifier::external_body]
    fn skip_prefix(&mut self, count: usize) -> (r: usize)
        ensures r == (if count <= old(self).contents().len() { count } else { old(self).contents().len() as usize }),
            final(self).contents() == old(self).contents().skip(r as int)
    { unimplemented!() }
    #[verifier::external_body]
    fn split_at(self, mid: usize) -> (r: (AnchoredSlice, AnchoredSlice))
        ensures
            mid >= self.contents().len() ==> r.0.contents() == self.contents() && r.1.contents() == Seq::<u8>::empty(),
            mid < self.contents().len() ==> r.0.contents() == self.contents().take(mid as int)
                && r.1.contents() == self.contents().skip(mid as int),
    { unimplemented!() }
}

// The bytes a reader has yet to deliver (ghost).  Any `impl Read`.
uninterp spec fn remaining<R>(r: &R) -> Seq<u8>;

// N9: the two statements
//     let concat = (&mut slice).chain(&mut reader);
//     let buf = arena.read_n(concat, io_block_size, NonZeroUsize::MAX)?;
// (with `slice = buf.slice()`, the carried bytes) are replaced by a call of this function.  ASSUMED, for
// readers that deliver short reads / Interrupted in any pattern but no hard error (C08's quantifier):
//   * `Chain` serves the carried bytes first, then the reader;
//   * `read_n` with an unbounded attempt budget keeps reading until `count` bytes arrived or end of file, and
//     returns exactly those bytes (the bounded Kani harness c17_read_n_impl_scripts checks read_n_impl);
//   * the reader has advanced by what was taken from it.
// Carried bytes beyond `count` would be lost; pump always carries at most one byte and asks for >= 1.
#[verifier::external_body]
fn read_n_chained<R: std::io::Read>(arena: &mut ByteArena, carried: &AnchoredSlice, reader: &mut R, count: usize) -> (r: Result<AnchoredSlice>)
    requires carried.contents().len() <= count
    ensures r is Ok ==> ({
        let avail = carried.contents() + remaining(old(reader));
        let k = if count <= avail.len() { count as int } else { avail.len() as int };
        &&& r->Ok_0.contents() == avail.take(k)
        &&& remaining(final(reader)) == remaining(old(reader)).skip(k - carried.contents().len())
    }),
    r is Err ==> remaining(final(reader)) == remaining(old(reader)),
{ unimplemented!() }

// find_stuff_sequence: the real function is in the unit (verified, rule N16), no longer assumed
