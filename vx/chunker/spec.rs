// C08 vocabulary.  T = the input stream FROM THE CHUNKER'S CURRENT OFFSET ON: what it holds (`buf`, read but not yet
// handed out) followed by what the reader has yet to deliver.  The whole stream is S = (bytes already handed out) ++ T.
impl StreamChunker {
    spec fn tail<R>(&self, reader: &R) -> Seq<u8> { self.buf.contents() + remaining(reader) }
}
// what one pump call promises about the chunk it returns, relative to the tail t and offset off0 before the call
spec fn pump_post(t: Seq<u8>, off0: int, ret: Chunk) -> bool {
    match ret {
        // exactly one FE FD occurrence, at this position; the reported offset is its absolute end
        Chunk::Sentinel(o) => o == off0 + 2 && t.len() >= 2 && t[0] == 0xfeu8 && t[1] == 0xfdu8,
        // only at the real end of the stream
        Chunk::Eof => t.len() == 0,
        Chunk::Data((o, d)) => {
            &&& d.contents().len() > 0                              // never empty
            &&& o == off0 + d.contents().len()                      // absolute end position
            &&& d.contents().len() <= t.len() && d.contents() == t.take(d.contents().len() as int)   // exactly the next bytes
            &&& no_stuff(d.contents())                              // no sentinel hidden inside
            // no stuff sequence straddles the boundary with whatever comes next
            &&& (d.contents().last() == 0xfeu8 ==> (d.contents().len() == t.len() || t[d.contents().len() as int] != 0xfdu8))
        }
    }
}
spec fn chunk_len(c: Chunk) -> int {
    match c { Chunk::Sentinel(_) => 2, Chunk::Eof => 0, Chunk::Data((_, d)) => d.contents().len() as int }
}
// after the call the chunker holds exactly the rest of the tail: the reader has advanced by j bytes
spec fn tail_ok(c: &StreamChunker, t: Seq<u8>, used: int, r0: Seq<u8>, j: int) -> bool {
    0 <= j <= r0.len() && 0 <= used <= t.len() && t.skip(used) == c.buf.contents() + r0.skip(j)
}
spec fn has_tail(c: &StreamChunker, t: Seq<u8>, used: int, r0: Seq<u8>) -> bool {
    exists|j: int| tail_ok(c, t, used, r0, j)
}
proof fn lemma_has_tail(c: &StreamChunker, t: Seq<u8>, used: int, r0: Seq<u8>, j: int)
    requires tail_ok(c, t, used, r0, j)
    ensures has_tail(c, t, used, r0)
{ }
proof fn lemma_no_stuff_short(b: Seq<u8>)
    requires b.len() <= 1
    ensures no_stuff(b)
{ }
// pump's split: everything before the first stuff sequence / before a trailing FE / the whole buffer
proof fn lemma_prefix_no_stuff(b: Seq<u8>, p: int)
    requires 0 < p <= b.len(),
        first_stuff(b, p) || (no_stuff(b) && ((p == b.len() && b.last() != 0xfeu8) || (p == b.len() - 1 && b.last() == 0xfeu8)))
    ensures no_stuff(b.take(p)),
        b.take(p).last() == 0xfeu8 ==> p < b.len() && b[p] != 0xfdu8,
{
    assert forall|i: int| !is_stuff_at(b.take(p), i) by {
        if is_stuff_at(b.take(p), i) { assert(is_stuff_at(b, i)); }
    }
    if first_stuff(b, p) {
        assert(b[p] == 0xfeu8);
    }
    if p == b.len() {
        assert(b.take(p) =~= b);
    }
}
proof fn lemma_tail_step(c: Seq<u8>, r: Seq<u8>, k: int)
    requires c.len() <= k <= c.len() + r.len()
    ensures (c + r).take(k) + r.skip(k - c.len()) == c + r
{
    assert((c + r).take(k) + r.skip(k - c.len()) =~= c + r);
}
proof fn lemma_tail_cut(b: Seq<u8>, rr: Seq<u8>, p: int)
    requires 0 <= p <= b.len()
    ensures (b + rr).skip(p) == b.skip(p) + rr, (b + rr).take(p) == b.take(p),
        forall|i: int| 0 <= i < b.len() ==> #[trigger] (b + rr)[i] == b[i],
{
    assert((b + rr).skip(p) =~= b.skip(p) + rr);
    assert((b + rr).take(p) =~= b.take(p));
}

// Tiling, one step: the chunk just returned followed by the stream the chunker still holds IS the stream it held
// before.  By induction over successive calls, the chunks returned up to Eof concatenate to the input stream, each
// reported offset is the absolute end position of its chunk, and Eof comes exactly when nothing is left.
spec fn chunk_bytes(c: Chunk) -> Seq<u8> {
    match c { Chunk::Sentinel(_) => seq![0xfeu8, 0xfdu8], Chunk::Eof => Seq::<u8>::empty(), Chunk::Data((_, d)) => d.contents() }
}
proof fn theorem_c08_tiling_step(t: Seq<u8>, off0: int, ret: Chunk)
    requires pump_post(t, off0, ret)
    ensures chunk_bytes(ret).len() == chunk_len(ret), chunk_len(ret) <= t.len(),
        chunk_bytes(ret) + t.skip(chunk_len(ret)) == t,
        ret is Eof <==> (chunk_len(ret) == 0),
{
    match ret {
        Chunk::Sentinel(_) => { assert(seq![0xfeu8, 0xfdu8] + t.skip(2) =~= t); }
        Chunk::Eof => { assert(Seq::<u8>::empty() + t.skip(0) =~= t); }
        Chunk::Data((_, d)) => { assert(t.take(d.contents().len() as int) + t.skip(d.contents().len() as int) =~= t); }
    }
}
