// Contract vocabulary for SlidingDeque<Container>, generic in the container: the proof uses only the
// PushTruncateContainer contract (overlay trait.ovl), so it holds for every backing that honours it.
impl<Container: PushTruncateContainer + Clone + Default> SlidingDeque<Container>
where
    <Container as PushTruncateContainer>::Item: Copy,
{
    // The read pointer is inside the container: what makes Deref's slicing safe.  (Not a Verus type
    // invariant: `clear` and `slide` break it between two statements, by design of the real code.)
    pub closed spec fn in_bounds(&self) -> bool { self.consumed_prefix <= self.container.items().len() }

    // Representation invariant at every public call boundary = the code's own check_rep: the space held
    // for consumed elements is at most half the container, and an empty deque is in the clean state.
    pub closed spec fn rep_ok(&self) -> bool {
        self.consumed_prefix <= self.container.items().len() / 2
            && (self.consumed_prefix < self.container.items().len() || self.consumed_prefix == 0)
    }
    // Abstract value: the reference double-ended queue = the unconsumed elements, in order.
    pub closed spec fn view(&self) -> Seq<Container::Item> {
        self.container.items().skip(self.consumed_prefix as int)
    }
    pub closed spec fn consumed(&self) -> int { self.consumed_prefix as int }
    pub closed spec fn backing_len(&self) -> int { self.container.items().len() as int }
}

// vstd's specification of core::convert::From / Into: the spec-level model of this impl, so that callers going
// through `.into()` (SortedDeque::new) learn what they get.  Verus checks the real `from` against it.
impl<Container> vstd::std_specs::convert::FromSpecImpl<Container> for SlidingDeque<Container>
where
    Container: PushTruncateContainer + Clone + Default,
    <Container as PushTruncateContainer>::Item: Copy,
{
    open spec fn obeys_from_spec() -> bool { true }
    closed spec fn from_spec(c: Container) -> Self { SlidingDeque { consumed_prefix: 0, container: c } }
}

// Deref for SlidingDeque.  A trait impl cannot carry a `requires`, so the REAL body of `deref` is verified
// re-homed as the inherent method `deref__rehomed` (rule N12, see overlays/deref.ovl) under the precondition
// `in_bounds`, and the trait method itself is this assumed-contract stub with the same postcondition.  Every
// auto-deref call site inside the unit (is_empty / first / last in check_rep, front, back, maybe_slide) asserts
// `in_bounds` right before the call; outside callers meet it through rep_ok at every public boundary.
impl<Container> std::ops::Deref for SlidingDeque<Container>
where
    Container: PushTruncateContainer + Clone + Default,
    <Container as PushTruncateContainer>::Item: Copy,
{
    type Target = [<Container as PushTruncateContainer>::Item];
    #[verifier::external_body]
    fn deref(&self) -> (ret: &Self::Target)
        ensures ret@ == self.view()
    { unimplemented!() }
}

// DerefMut: same arrangement as Deref (rule N12).  A write through the returned slice changes exactly the
// addressed elements of the view and nothing else (consumed prefix and length unchanged).
impl<Container> std::ops::DerefMut for SlidingDeque<Container>
where
    Container: PushTruncateContainer + Clone + Default,
    <Container as PushTruncateContainer>::Item: Copy,
{
    #[verifier::external_body]
    fn deref_mut(&mut self) -> (ret: &mut Self::Target)
        ensures ret@ == old(self).view(), final(self).view() == final(ret)@,
            final(self).consumed() == old(self).consumed(), final(self).backing_len() == old(self).backing_len(),
    { unimplemented!() }
}
