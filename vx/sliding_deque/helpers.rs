// N3 helpers: strict (non-short-circuit) boolean operators as verified functions.
pub fn strict_or(a: bool, b: bool) -> (r: bool) ensures r == (a || b) { a || b }
pub fn strict_and(a: bool, b: bool) -> (r: bool) ensures r == (a && b) { a && b }

// ASSUMED std contract: `<[T]>::copy_within(src.., dest)` for a RangeFrom source (N9 alias: the std method is
// generic over RangeBounds<usize>, which has no vstd specification).  memmove semantics: the tail s[src..]
// lands at s[dest..], everything else is unchanged.  Panics unless src <= len and dest <= len - (len - src).
#[verifier::external_body]
pub fn slice_copy_within_from<T: Copy>(s: &mut [T], src: usize, dest: usize)
    requires src <= old(s)@.len(), dest + (old(s)@.len() - src) <= old(s)@.len()
    ensures final(s)@.len() == old(s)@.len(),
        forall|k: int| dest <= k < dest + (old(s)@.len() - src) ==> #[trigger] final(s)@[k] == old(s)@[k - dest + src],
        forall|k: int| 0 <= k < old(s)@.len() && !(dest <= k < dest + (old(s)@.len() - src)) ==> #[trigger] final(s)@[k] == old(s)@[k],
{ s.copy_within(src.., dest) }
