// Stand-ins for the dependencies of vouched_time/src/lib.rs.  Everything here is an ASSUMED contract:
// the `time` and `raffle` crates are not part of woodpile.
#[verifier::external_type_specification]
#[verifier::external_body]
pub struct ExIoError(std::io::Error);

// std::io::Error::other is generic over Into<Box<dyn Error + Send + Sync>>; the N9 rule replaces it by this
// monomorphic alias.  The error payload carries no content for C14.
#[verifier::external_body]
fn io_error_other(msg: &str) -> std::io::Error { std::io::Error::other(msg) }

type Result<T> = std::result::Result<T, std::io::Error>;

// ASSUMED std contract: i128::div_euclid.  Panics on division by zero and on MIN / -1; for a positive divisor the
// result is the floor of the quotient (spec `/` on int is Euclidean division).
pub assume_specification[i128::div_euclid](a: i128, b: i128) -> (r: i128)
    requires b != 0, !(a == i128::MIN && b == -1)
    ensures b > 0 ==> r == (a as int) / (b as int);

mod time {
    use super::*;
    #[verifier::external_body]
    #[derive(Clone, Copy)]
    pub struct PrimitiveDateTime { _p: u8 }
    #[verifier::external_body]
    #[derive(Clone, Copy)]
    pub struct OffsetDateTime { _p: u8 }
    #[verifier::external_body]
    pub struct Date { _p: u8 }
    #[verifier::external_body]
    pub struct Time { _p: u8 }
    impl PrimitiveDateTime {
        // nanoseconds since the Unix epoch when the value is read as UTC (the `time` crate is the oracle)
        pub uninterp spec fn utc_nanos(&self) -> int;
        #[verifier::external_body]
        pub fn assume_utc(self) -> (r: OffsetDateTime) ensures r.nanos() == self.utc_nanos() { unimplemented!() }
        #[verifier::external_body]
        pub fn new(date: Date, time: Time) -> (r: PrimitiveDateTime) ensures r.utc_nanos() == civil_nanos(date, time) { unimplemented!() }
    }
    pub uninterp spec fn civil_nanos(date: Date, time: Time) -> int;
    pub uninterp spec fn clock_nanos() -> int;
    pub uninterp spec fn date_of(nanos: int) -> Date;
    pub uninterp spec fn time_of(nanos: int) -> Time;
    // ASSUMED of the `time` crate: splitting a UTC instant into (date, time of day) and putting the two back
    // together gives the same instant
    #[verifier::external_body]
    pub proof fn axiom_date_time_round_trip(nanos: int)
        ensures civil_nanos(date_of(nanos), time_of(nanos)) == nanos
    {}
    impl OffsetDateTime {
        pub uninterp spec fn nanos(&self) -> int;
        #[verifier::external_body]
        pub fn unix_timestamp_nanos(self) -> (r: i128) ensures r == self.nanos() { unimplemented!() }
        // the system clock: ANY value, but one value per reading: `clock_nanos()` is what this call of now() reads
        #[verifier::external_body]
        pub fn now_utc() -> (r: OffsetDateTime) ensures r.nanos() == clock_nanos() { unimplemented!() }
        // calendar date and time of day of a UTC instant
        #[verifier::external_body]
        pub fn date(self) -> (r: Date) ensures r == date_of(self.nanos()) { unimplemented!() }
        #[verifier::external_body]
        pub fn time(self) -> (r: Time) ensures r == time_of(self.nanos()) { unimplemented!() }
    }
}

mod raffle {
    use super::*;
    #[verifier::external_body]
    #[derive(Clone, Copy)]
    pub struct Voucher { _p: u64 }
    #[derive(Clone, Copy)]
    pub struct CheckingParameters { pub id: u8 }
    // "the voucher vouches for the value under these checking parameters": raffle is its own oracle
    pub uninterp spec fn vouches(p: CheckingParameters, value: u64, voucher: Voucher) -> bool;
    impl CheckingParameters {
        #[verifier::external_body]
        pub fn check(self, value: u64, voucher: Voucher) -> (r: bool) ensures r == vouches(self, value, voucher) { unimplemented!() }
    }
}

// The crate's checking parameters: an opaque constant here; that it is the intended parameter set is pinned
// by the Kani harness c14_real_voucher_pins_parameters on the real raffle code.
spec fn base_time_check() -> raffle::CheckingParameters { raffle::CheckingParameters { id: 0 } }
exec const BASE_TIME_CHECK: raffle::CheckingParameters
    ensures BASE_TIME_CHECK == base_time_check()
{ raffle::CheckingParameters { id: 0 } }
