// C14 vocabulary, transcribed from the property statement.
// truncating division (Rust's `/` on signed integers)
spec fn tdiv(a: int, b: int) -> int { if a >= 0 { a / b } else { -((-a) / b) } }
// the window: local not before the epoch (and representable), -59900 <= local - base <= +2990, no wrap
spec fn window_ok(local_ms: int, base_ms: int) -> bool {
    0 <= local_ms <= 0xffff_ffff_ffff_ffff && -59_900 <= local_ms - base_ms <= 2_990
}
spec fn local_ms(t: time::PrimitiveDateTime) -> int { tdiv(t.utc_nanos(), 1_000_000) }
// the acceptance rule of VouchedTime::new / check
spec fn acceptable(t: time::PrimitiveDateTime, base: u64, v: raffle::Voucher) -> bool {
    raffle::vouches(base_time_check(), base, v) && window_ok(local_ms(t), base as int)
}
impl VouchedTime {
    // representation invariant: every VouchedTime handed out by the constructors satisfies it
    spec fn valid(self) -> bool { acceptable(self.local_time, self.base_time_ms, self.voucher) }
}
