// C14 vocabulary, transcribed from the property statement.
// truncating division (Rust's `/` on signed integers): used ONLY to describe what the code's arithmetic does, never
// in the acceptance rule below
spec fn tdiv(a: int, b: int) -> int { if a >= 0 { a / b } else { -((-a) / b) } }
// the window: local not before the epoch (and representable), -59900 <= local - base <= +2990, no wrap
spec fn window_ok(local_ms: int, base_ms: int) -> bool {
    0 <= local_ms <= 0xffff_ffff_ffff_ffff && -59_900 <= local_ms - base_ms <= 2_990
}
// the local time in whole milliseconds since the epoch (the millisecond the instant falls in: floor; spec `/` on int
// with a positive divisor is floor division)
spec fn local_ms(t: time::PrimitiveDateTime) -> int { t.utc_nanos() / 1_000_000 }
// the acceptance rule of VouchedTime::new / check, from the property statement: the voucher vouches for the base time,
// the local time is not before the Unix epoch (at the clock's own resolution, not after rounding), and the window
spec fn acceptable(t: time::PrimitiveDateTime, base: u64, v: raffle::Voucher) -> bool {
    raffle::vouches(base_time_check(), base, v) && t.utc_nanos() >= 0 && window_ok(local_ms(t), base as int)
}
impl VouchedTime {
    // representation invariant: every VouchedTime handed out by the constructors satisfies it
    spec fn valid(self) -> bool { acceptable(self.local_time, self.base_time_ms, self.voucher) }
}
