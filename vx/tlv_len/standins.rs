// Stand-in for the sink trait of the owning_iovec dependency: compute_len never touches a sink; the trait only has
// to exist for ToRoughTLV::to_rough_tlv's signature to resolve.  No contract is assumed of it.
pub trait ZeroCopySink<'a> { }
