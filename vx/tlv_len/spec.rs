// The length rule of C11, as mathematics (taken from the property statement / the Roughtime layout):
// pair count word, N-1 offsets, N tags, the values.
pub open spec fn sum_lens<'a, V: ToRoughTLV<'a>>(s: Seq<(Tag, V)>) -> nat
    decreases s.len()
{
    if s.len() == 0 { 0 } else { sum_lens(s.drop_last()) + s.last().1.tlv_len() }
}
pub open spec fn header_len(n: int) -> int { 4 + 4 * (if n >= 1 { n - 1 } else { 0 }) + 4 * n }
pub open spec fn layout_len<'a, V: ToRoughTLV<'a>>(s: Seq<(Tag, V)>) -> int { header_len(s.len() as int) + sum_lens(s) }
// saturation at the machine word (the proof makes NO assumption on the width of usize beyond Verus's 32-or-64 bits)
pub open spec fn sat(x: int) -> int { if x > usize::MAX { usize::MAX as int } else { x } }
// what MessageWrapper accepts, per the property: at most i32::MAX pairs, each value at most i32::MAX bytes, the whole
// message at most i32::MAX bytes
pub open spec fn within_limits<'a, V: ToRoughTLV<'a>>(s: Seq<(Tag, V)>) -> bool {
    s.len() <= i32::MAX && (forall|i: int| 0 <= i < s.len() ==> (#[trigger] s[i]).1.tlv_len() <= i32::MAX)
        && layout_len(s) <= i32::MAX
}
// first value that is too large (what ValueTooLarge must report)
pub open spec fn first_too_large<'a, V: ToRoughTLV<'a>>(s: Seq<(Tag, V)>, r: int) -> bool {
    0 <= r < s.len() && s[r].1.tlv_len() > i32::MAX && forall|i: int| 0 <= i < r ==> (#[trigger] s[i]).1.tlv_len() <= i32::MAX
}
// every error names its cause exactly
pub open spec fn error_names_cause<'a, V: ToRoughTLV<'a>>(s: Seq<(Tag, V)>, ret: Result<usize, EncodingError>) -> bool {
    match ret {
        Ok(_) => true,
        Err(EncodingError::TooManyElements(n)) => n == s.len() && n > i32::MAX,
        Err(EncodingError::ValueTooLarge((rank, len))) => s.len() <= i32::MAX && first_too_large(s, rank as int)
            && len == s[rank as int].1.tlv_len(),
        Err(EncodingError::TotalTooLarge((n, size))) => n == s.len() && size == sat(layout_len(s)) && size > i32::MAX
            && forall|i: int| 0 <= i < s.len() ==> (#[trigger] s[i]).1.tlv_len() <= i32::MAX,
        Err(_) => false,
    }
}
// the sum dominates each of its terms (what makes "one value of i32::MAX bytes already breaks the total limit" provable)
pub proof fn lemma_sum_ge<'a, V: ToRoughTLV<'a>>(s: Seq<(Tag, V)>, i: int)
    requires 0 <= i < s.len()
    ensures sum_lens(s) >= s[i].1.tlv_len()
    decreases s.len()
{
    if i < s.len() - 1 {
        lemma_sum_ge(s.drop_last(), i);
    }
}
